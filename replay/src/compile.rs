//! bottom-up compilation cases on the REAL RobddBuilder: compile_logical_expr / compile_cnf / compile_plan
//! against the brute-force meaning of the input
use crate::CaseResult;
use rsdd::builder::bdd::{BddBuilder, RobddBuilder};
use rsdd::builder::cache::AllIteTable;
use rsdd::builder::sdd::{CompressionSddBuilder, SddBuilder, SemanticSddBuilder};
use rsdd::constants::primes;
use rsdd::builder::BottomUpBuilder;
use rsdd::plan::BottomUpPlan;
use rsdd::repr::{BddPtr, Cnf, DTree, Literal, LogicalExpr, PartialModel, SddPtr, VTree, VarLabel, VarOrder};
use serde_json::{json, Value};

fn eval(p: BddPtr, a: &[bool]) -> bool {
    match p {
        BddPtr::PtrTrue => true,
        BddPtr::PtrFalse => false,
        BddPtr::Reg(n) => if a[n.var.value() as usize] { eval(n.high, a) } else { eval(n.low, a) },
        BddPtr::Compl(n) => !eval(BddPtr::Reg(n), a),
    }
}

/// structural evaluation of an SDD (independent of the library's fold)
fn seval(p: SddPtr, a: &[bool]) -> bool {
    match p {
        SddPtr::PtrTrue => true,
        SddPtr::PtrFalse => false,
        SddPtr::Var(l, pol) => a[l.value() as usize] == pol,
        SddPtr::BDD(b) => if a[b.label().value() as usize] { seval(b.high(), a) } else { seval(b.low(), a) },
        SddPtr::ComplBDD(b) => !seval(SddPtr::BDD(b), a),
        SddPtr::Reg(o) => o.iter().any(|n| seval(n.prime(), a) && seval(n.sub(), a)),
        SddPtr::Compl(o) => !seval(SddPtr::Reg(o), a),
    }
}
fn vtree(v: &Value) -> VTree {
    match v.as_array() {
        Some(a) => VTree::new_node(Box::new(vtree(&a[0])), Box::new(vtree(&a[1]))),
        None => VTree::new_leaf(VarLabel::new(v.as_u64().unwrap_or(0))),
    }
}
fn vleaves(v: &Value, out: &mut Vec<u64>) { match v.as_array() { Some(a) => { vleaves(&a[0], out); vleaves(&a[1], out); } None => out.push(v.as_u64().unwrap_or(0)) } }

fn run_sdd(c: &Value) -> CaseResult {
    let b = CompressionSddBuilder::new(vtree(&c["vtree"]));
    run_sdd_on("compression", &b, c)?;
    if c["cnf"].is_null() { return Ok(()); }   // the semantic builder compiles clause lists only (its ite is a todo!())
    let b2 = SemanticSddBuilder::<{ primes::U64_LARGEST }>::new(vtree(&c["vtree"]));
    run_sdd_on("semantic", &b2, c)
}

fn run_sdd_on<'a, B: SddBuilder<'a>>(which: &str, b: &'a B, c: &Value) -> CaseResult {
    let mut ls = vec![]; vleaves(&c["vtree"], &mut ls);
    let nv = ls.len();
    let asg = |m: usize| -> Vec<bool> { (0..nv).map(|i| (m >> i) & 1 == 1).collect() };
    // the semantic-hash SDD builder leaves `ite` unimplemented (explicit todo!() in its ite cache): expressions and plans
    // are compiled with the compression builder only
    if !c["expr"].is_null() && which == "compression" {
        let d = b.compile_logical_expr(&expr(&c["expr"]));
        let d2 = b.compile_plan(&plan(&c["expr"]));
        for m in 0..(1usize << nv) {
            let a = asg(m);
            if seval(d, &a) != ev(&c["expr"], &a) { return Err(format!("{which} SDD compile_logical_expr: diagram is {} on {:?}, the expression is {}", seval(d, &a), a, ev(&c["expr"], &a))); }
            if seval(d2, &a) != ev(&c["expr"], &a) { return Err(format!("{which} SDD compile_plan: diagram is {} on {:?}, the plan means {}", seval(d2, &a), a, ev(&c["expr"], &a))); }
        }
    }
    if let Some(es) = c["exprs"].as_array() {
        // many expressions in ONE builder (caches and unique tables are shared between them)
        if which == "compression" {
            for (k, e) in es.iter().enumerate() {
                let d = b.compile_logical_expr(&expr(e));
                for m in 0..(1usize << nv) {
                    let a = asg(m);
                    if seval(d, &a) != ev(e, &a) { return Err(format!("{which} SDD compile_logical_expr (expression {k} of the batch: {e}): diagram is {} on {:?}, the expression is {}", seval(d, &a), a, ev(e, &a))); }
                }
            }
        }
    }
    if !c["cnf"].is_null() {
        let cls: Vec<Vec<Literal>> = c["cnf"].as_array().map(|cs| cs.iter().map(|cl| cl.as_array().map(|ls| ls.iter().map(|l| {
            let x = l.as_i64().unwrap_or(1);
            Literal::new(VarLabel::new((x.unsigned_abs() - 1) as u64), x > 0)
        }).collect()).unwrap_or_default()).collect()).unwrap_or_default();
        let cnf = Cnf::new(&cls);
        let d = b.compile_cnf(&cnf);
        for m in 0..(1usize << nv) {
            let a = asg(m);
            let want = cls.iter().all(|cl| cl.iter().any(|l| a[l.label().value() as usize] == l.polarity()));
            if seval(d, &a) != want { return Err(format!("{which} SDD compile_cnf: diagram is {} on {:?}, the CNF is {}", seval(d, &a), a, want)); }
        }
    }
    Ok(())
}

fn expr(v: &Value) -> LogicalExpr {
    let b = |i: usize| Box::new(expr(&v[i]));
    match v[0].as_str().unwrap_or("") {
        "lit" => LogicalExpr::Literal(v[1].as_u64().unwrap_or(0) as usize, v[2].as_bool().unwrap_or(true)),
        "not" => LogicalExpr::Not(b(1)),
        "and" => LogicalExpr::And(b(1), b(2)),
        "or" => LogicalExpr::Or(b(1), b(2)),
        "iff" => LogicalExpr::Iff(b(1), b(2)),
        "xor" => LogicalExpr::Xor(b(1), b(2)),
        _ => LogicalExpr::Ite { guard: b(1), thn: b(2), els: b(3) },
    }
}
fn plan(v: &Value) -> BottomUpPlan {
    let b = |i: usize| Box::new(plan(&v[i]));
    match v[0].as_str().unwrap_or("") {
        "lit" => BottomUpPlan::Literal(VarLabel::new(v[1].as_u64().unwrap_or(0)), v[2].as_bool().unwrap_or(true)),
        "not" => BottomUpPlan::Not(b(1)),
        "and" => BottomUpPlan::And(b(1), b(2)),
        "or" => BottomUpPlan::Or(b(1), b(2)),
        "iff" => BottomUpPlan::Iff(b(1), b(2)),
        "xor" => BottomUpPlan::Not(Box::new(BottomUpPlan::Iff(b(1), b(2)))),
        _ => BottomUpPlan::Ite(b(1), b(2), b(3)),
    }
}
fn ev(v: &Value, a: &[bool]) -> bool {
    match v[0].as_str().unwrap_or("") {
        "lit" => a[v[1].as_u64().unwrap_or(0) as usize] == v[2].as_bool().unwrap_or(true),
        "not" => !ev(&v[1], a),
        "and" => ev(&v[1], a) && ev(&v[2], a),
        "or" => ev(&v[1], a) || ev(&v[2], a),
        "iff" => ev(&v[1], a) == ev(&v[2], a),
        "xor" => ev(&v[1], a) != ev(&v[2], a),
        _ => if ev(&v[1], a) { ev(&v[2], a) } else { ev(&v[3], a) },
    }
}

/// formulas whose labels reach beyond 64 (a few clauses over <= 8 mentioned variables among 66-70): every way of compiling
/// the CNF in one BDD builder must give the same pointer, and the diagram must agree with the CNF on every assignment of
/// the mentioned variables (the others false / true); the SDD builder (right-linear vtree) likewise by evaluation
fn run_wide(c: &Value) -> CaseResult {
    let nv = c["nvars"].as_u64().unwrap_or(66) as usize;
    let cls: Vec<Vec<Literal>> = c["cnf"].as_array().map(|cs| cs.iter().map(|cl| cl.as_array().map(|ls| ls.iter().map(|l| {
        let x = l.as_i64().unwrap_or(1);
        Literal::new(VarLabel::new((x.unsigned_abs() - 1) as u64), x > 0)
    }).collect()).unwrap_or_default()).collect()).unwrap_or_default();
    let cnf = Cnf::new(&cls);
    let mut used: Vec<usize> = cls.iter().flat_map(|cl| cl.iter().map(|l| l.label().value() as usize)).collect(); used.sort(); used.dedup();
    if used.len() > 10 || cnf.num_vars() != nv { return Ok(()); }
    let order: Vec<VarLabel> = (0..nv as u64).map(VarLabel::new).collect();
    let b = RobddBuilder::<AllIteTable<BddPtr>>::new(VarOrder::new(&order));
    let d = b.compile_cnf(&cnf);
    let dt = DTree::from_cnf(&cnf, &VarOrder::new(&order));
    let dp = b.compile_plan(&BottomUpPlan::from_dtree(&dt));
    let dw = b.compile_cnf_with_assignments(&cnf, &PartialModel::from_assignments(&vec![None; nv]));
    let sb = CompressionSddBuilder::new(VTree::right_linear(&order));
    let sd = sb.compile_cnf(&cnf);
    let sp = sb.compile_plan(&BottomUpPlan::from_dtree(&dt));
    for fill in [false, true] {
        for m in 0..(1usize << used.len()) {
            let mut a = vec![fill; nv];
            for (k, v) in used.iter().enumerate() { a[*v] = (m >> k) & 1 == 1; }
            let want = cls.iter().all(|cl| cl.iter().any(|l| a[l.label().value() as usize] == l.polarity()));
            for (what, got) in [("compile_cnf", eval(d, &a)), ("plan from dtree", eval(dp, &a)), ("compile_cnf_with_assignments(no assignment)", eval(dw, &a)), ("SDD compile_cnf", seval(sd, &a)), ("SDD plan from dtree", seval(sp, &a))] {
                if got != want { return Err(format!("{what} on a formula with labels up to {}: diagram is {got}, the CNF is {want} (mentioned variables {:?} = {:b}, the others {fill})", nv - 1, used, m)); }
            }
        }
    }
    Ok(())
}

pub fn run(c: &Value) -> CaseResult {
    if c["case"].as_str() == Some("compile_sdd") { return run_sdd(c); }
    if c["case"].as_str() == Some("compile_wide") { return run_wide(c); }
    let order: Vec<VarLabel> = c["order"].as_array().map(|a| a.iter().map(|v| VarLabel::new(v.as_u64().unwrap_or(0))).collect()).unwrap_or_default();
    let nv = order.len();
    let b = RobddBuilder::<AllIteTable<BddPtr>>::new(VarOrder::new(&order));
    let asg = |m: usize| -> Vec<bool> { (0..nv).map(|i| (m >> i) & 1 == 1).collect() };
    match c["case"].as_str().unwrap_or("") {
        "compile_expr" => {
            let d = b.compile_logical_expr(&expr(&c["expr"]));
            let d2 = b.compile_plan(&plan(&c["expr"]));
            for m in 0..(1usize << nv) {
                let a = asg(m);
                if eval(d, &a) != ev(&c["expr"], &a) { return Err(format!("compile_logical_expr: diagram is {} on {:?}, the expression is {}", eval(d, &a), a, ev(&c["expr"], &a))); }
                if eval(d2, &a) != ev(&c["expr"], &a) { return Err(format!("compile_plan: diagram is {} on {:?}, the plan means {}", eval(d2, &a), a, ev(&c["expr"], &a))); }
            }
            Ok(())
        }
        _ => {
            let cls: Vec<Vec<Literal>> = c["cnf"].as_array().map(|cs| cs.iter().map(|cl| cl.as_array().map(|ls| ls.iter().map(|l| {
                let x = l.as_i64().unwrap_or(1);
                Literal::new(VarLabel::new((x.unsigned_abs() - 1) as u64), x > 0)
            }).collect()).unwrap_or_default()).collect()).unwrap_or_default();
            let cnf = Cnf::new(&cls);
            let d = b.compile_cnf(&cnf);
            let ptrs: Vec<BddPtr> = cls.iter().map(|cl| { let mut x = b.false_ptr(); for l in cl { x = b.or(x, b.var(l.label(), l.polarity())); } x }).collect();
            let cc = b.collapse_clauses(&ptrs);
            // compiling under a partial assignment == compiling and then conditioning (same builder: same pointer)
            if let Some(pa) = c["partial"].as_array() {
                let pa: Vec<Option<bool>> = (0..nv).map(|i| pa.get(i).and_then(|v| v.as_bool())).collect();
                let pm = PartialModel::from_assignments(&pa);
                let d1 = b.compile_cnf_with_assignments(&cnf, &pm);
                let d2 = b.condition_model(d, &pm);
                for m in 0..(1usize << nv) {
                    let a = asg(m);
                    let mut a2 = a.clone();
                    for (i, v) in pa.iter().enumerate() { if let Some(v) = v { a2[i] = *v; } }
                    let want = cls.iter().all(|cl| cl.iter().any(|l| a2[l.label().value() as usize] == l.polarity()));
                    if eval(d1, &a) != want { return Err(format!("compile_cnf_with_assignments({:?}): diagram is {} on {:?}, the conditioned CNF is {}", pa, eval(d1, &a), a, want)); }
                }
                if d1 != d2 { return Err(format!("compile_cnf_with_assignments({:?}) and compile-then-condition give different diagrams", pa)); }
            }
            // plan derived from a decomposition tree of the CNF (needs every variable of the order to occur)
            if c["dtree"].as_bool().unwrap_or(false) {
                let dt = DTree::from_cnf(&cnf, &VarOrder::new(&order));
                let pl = BottomUpPlan::from_dtree(&dt);
                let dp = b.compile_plan(&pl);
                for m in 0..(1usize << nv) {
                    let a = asg(m);
                    let want = cls.iter().all(|cl| cl.iter().any(|l| a[l.label().value() as usize] == l.polarity()));
                    if eval(dp, &a) != want { return Err(format!("plan from dtree: diagram is {} on {:?}, the CNF is {}", eval(dp, &a), a, want)); }
                }
            }
            for m in 0..(1usize << nv) {
                let a = asg(m);
                let want = cls.iter().all(|cl| cl.iter().any(|l| a[l.label().value() as usize] == l.polarity()));
                if eval(d, &a) != want { return Err(format!("compile_cnf: diagram is {} on {:?}, the CNF is {}", eval(d, &a), a, want)); }
                match cc { None => if !cls.is_empty() { return Err("collapse_clauses returned None for a non-empty list".into()); },
                           Some(x) => if eval(x, &a) != want { return Err(format!("collapse_clauses: {} on {:?}, conjunction is {}", eval(x, &a), a, want)); } }
            }
            Ok(())
        }
    }
}

pub fn candidates(seed: u64) -> Vec<Value> {
    let mut out = vec![];
    let mut s = seed.wrapping_add(31337);
    let mut nx = |n: u64| { s = s.wrapping_mul(6364136223846793005).wrapping_add(1442695040888963407); (s >> 33) % n };
    fn gen(depth: u64, nx: &mut dyn FnMut(u64) -> u64) -> Value {
        if depth == 0 || nx(4) == 0 { return json!(["lit", nx(3), nx(2) == 0]); }
        match nx(6) {
            0 => json!(["not", gen(depth - 1, nx)]),
            1 => json!(["and", gen(depth - 1, nx), gen(depth - 1, nx)]),
            2 => json!(["or", gen(depth - 1, nx), gen(depth - 1, nx)]),
            3 => json!(["iff", gen(depth - 1, nx), gen(depth - 1, nx)]),
            4 => json!(["xor", gen(depth - 1, nx), gen(depth - 1, nx)]),
            _ => json!(["ite", gen(depth - 1, nx), gen(depth - 1, nx), gen(depth - 1, nx)]),
        }
    }
    let orders = [[0, 1, 2], [0, 2, 1], [1, 0, 2], [1, 2, 0], [2, 0, 1], [2, 1, 0]];
    for cnf in [json!([]), json!([[]]), json!([[1]]), json!([[1, -1]]), json!([[1, 2], [-2, 3]]), json!([[1, 1, 2], [-3]]), json!([[1, 2, 3], [], [2]]), json!([[3], [-3, 1], [2, -1]])] {
        for o in orders.iter() {
            out.push(json!({"case": "compile_cnf", "cnf": cnf, "order": o}));
            for pa in [json!([null, null, null]), json!([true, null, null]), json!([null, false, true]), json!([false, false, false]), json!([null, true, null])] {
                out.push(json!({"case": "compile_cnf", "cnf": cnf, "order": o, "partial": pa}));
            }
        }
    }
    // SDD builder: every vtree over 3 variables (2 shapes x 6 leaf orders) and 3 shapes over 4 variables
    let mut vts: Vec<Value> = vec![];
    for o in orders.iter() { vts.push(json!([[o[0], o[1]], o[2]])); vts.push(json!([o[0], [o[1], o[2]]])); }
    for cnf in [json!([]), json!([[]]), json!([[1]]), json!([[1, -1]]), json!([[1, 2], [-2, 3]]), json!([[1, 1, 2], [-3]]), json!([[1, 2, 3], [], [2]]), json!([[3], [-3, 1], [2, -1]])] {
        for vt in vts.iter() { out.push(json!({"case": "compile_sdd", "cnf": cnf, "vtree": vt})); }
    }
    for k in 0..400 {
        let vt = vts[nx(12) as usize].clone();
        let ncl = nx(5);
        let cnf: Vec<Vec<i64>> = (0..ncl).map(|_| (0..nx(4)).map(|_| { let v = 1 + nx(3) as i64; if nx(2) == 0 { v } else { -v } }).collect()).collect();
        out.push(json!({"case": "compile_sdd", "cnf": cnf, "expr": gen(3, &mut nx), "vtree": vt}));
        if k % 4 == 0 {
            let vt4 = [json!([[0, 1], [2, 3]]), json!([[[3, 1], 0], 2]), json!([2, [0, [3, 1]]]), json!([[1, [3, 0]], 2])][nx(4) as usize].clone();
            let cnf4: Vec<Vec<i64>> = (0..1 + nx(5)).map(|_| (0..1 + nx(3)).map(|_| { let v = 1 + nx(4) as i64; if nx(2) == 0 { v } else { -v } }).collect()).collect();
            out.push(json!({"case": "compile_sdd", "cnf": cnf4, "vtree": vt4}));
        }
    }
    // systematic expressions over three variables for the SDD builder: o1(o2(l_i, l_j), l_k) and ite(l_i, o2(l_j, l_k), l_m) over all
    // literals; every expression under two of the twelve vtrees; one builder per (vtree, batch of ~120 expressions)
    {
        let lits: Vec<Value> = (0..3).flat_map(|v| vec![json!(["lit", v, true]), json!(["lit", v, false])]).collect();
        let mut batches: Vec<Vec<Value>> = vec![vec![]; 12];
        let mut cnt = 0usize;
        for i in 0..6 { for j in 0..6 { for k in 0..6 {
            for o2 in ["and", "or", "xor", "iff"] {
                for o1 in ["and", "or", "xor", "iff"] {
                    let e = json!([o1, [o2, lits[i], lits[j]], lits[k]]);
                    batches[cnt % 12].push(e.clone()); batches[(cnt + 5) % 12].push(e);
                    cnt += 1;
                }
                let e = json!(["ite", lits[i], [o2, lits[j], lits[k]], lits[(i + j + k) % 6]]);
                batches[cnt % 12].push(e);
                cnt += 1;
            }
        } } }
        for (vi, bt) in batches.into_iter().enumerate() {
            for chunk in bt.chunks(120) { out.push(json!({"case": "compile_sdd", "exprs": chunk, "vtree": vts[vi]})); }
        }
    }
    // labels beyond 64: a few clauses over variables picked from {0..3} and {62..69}
    for _ in 0..40 {
        let pool: Vec<i64> = vec![1, 2, 3, 4, 63, 64, 65, 66, 67, 68, 69, 70];
        let nv = 66 + nx(5);
        let mut cnf: Vec<Vec<i64>> = (0..2 + nx(3)).map(|_| (0..1 + nx(3)).map(|_| { let v = pool[nx(12) as usize].min(nv as i64); if nx(2) == 0 { v } else { -v } }).collect()).collect();
        cnf.push(vec![nv as i64, 2]);
        out.push(json!({"case": "compile_wide", "cnf": cnf, "nvars": nv}));
    }
    // five variables: left-linear, right-linear, balanced and two mixed vtrees, random CNFs and expressions
    let vt5 = [json!([[[[0, 1], 2], 3], 4]), json!([0, [1, [2, [3, 4]]]]), json!([[0, 1], [[2, 3], 4]]), json!([[3, [0, 4]], [2, 1]]), json!([[4, 2], [[1, 0], 3]])];
    fn gen5(depth: u64, nx: &mut dyn FnMut(u64) -> u64) -> Value {
        if depth == 0 || nx(4) == 0 { return json!(["lit", nx(5), nx(2) == 0]); }
        match nx(6) {
            0 => json!(["not", gen5(depth - 1, nx)]),
            1 => json!(["and", gen5(depth - 1, nx), gen5(depth - 1, nx)]),
            2 => json!(["or", gen5(depth - 1, nx), gen5(depth - 1, nx)]),
            3 => json!(["iff", gen5(depth - 1, nx), gen5(depth - 1, nx)]),
            4 => json!(["xor", gen5(depth - 1, nx), gen5(depth - 1, nx)]),
            _ => json!(["ite", gen5(depth - 1, nx), gen5(depth - 1, nx), gen5(depth - 1, nx)]),
        }
    }
    for _ in 0..200 {
        let vt = vt5[nx(5) as usize].clone();
        let cnf5: Vec<Vec<i64>> = (0..2 + nx(6)).map(|_| (0..1 + nx(3)).map(|_| { let v = 1 + nx(5) as i64; if nx(2) == 0 { v } else { -v } }).collect()).collect();
        out.push(json!({"case": "compile_sdd", "cnf": cnf5, "expr": gen5(3, &mut nx), "vtree": vt}));
    }
    for _ in 0..600 {
        let o = orders[nx(6) as usize];
        out.push(json!({"case": "compile_expr", "expr": gen(4, &mut nx), "order": o}));
        let ncl = nx(5);
        let cnf: Vec<Vec<i64>> = (0..ncl).map(|_| (0..nx(4)).map(|_| { let v = 1 + nx(3) as i64; if nx(2) == 0 { v } else { -v } }).collect()).collect();
        let pa: Vec<Value> = (0..3).map(|_| match nx(3) { 0 => Value::Null, 1 => json!(true), _ => json!(false) }).collect();
        out.push(json!({"case": "compile_cnf", "cnf": cnf, "order": o, "partial": pa}));
        // dtree plans: every variable occurs, no empty clause (DTree::from_cnf's domain)
        let mut cnf2: Vec<Vec<i64>> = cnf.iter().filter(|c| !c.is_empty()).cloned().collect();
        cnf2.push(vec![1, -2, 3]);
        out.push(json!({"case": "compile_cnf", "cnf": cnf2, "order": o, "dtree": true}));
        // ... and with the empty clauses left in (a leaf without variables), as long as there is a clause at all
        if !cnf.is_empty() { out.push(json!({"case": "compile_cnf", "cnf": cnf, "order": o, "dtree": true})); }
    }
    // dtree plans of formulas with k empty clauses next to m independent clauses (subtrees without variables)
    for k in 1..=3usize {
        for m in 0..=3usize {
            let mut cnf: Vec<Vec<i64>> = vec![vec![]; k];
            let indep = [vec![1i64], vec![-2], vec![3]];
            for c in indep.iter().take(m) { cnf.push(c.clone()); }
            for o in orders.iter().take(2) { out.push(json!({"case": "compile_cnf", "cnf": cnf, "order": o, "dtree": true})); }
            let mut rev = cnf.clone(); rev.reverse();
            out.push(json!({"case": "compile_cnf", "cnf": rev, "order": orders[3], "dtree": true}));
        }
    }
    out
}
