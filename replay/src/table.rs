//! unique-table cases: drives the REAL `BackedRobinhoodTable` (small capacity through the rsdd_verif hook)
//! with caller-chosen hashes and checks that equal requests return one address (C02, hash-consing).
use crate::CaseResult;
use rsdd::verif_hooks::BackedRobinhoodTable;
use serde_json::{json, Value};
use std::collections::HashMap;

pub fn run(c: &Value) -> CaseResult {
    let cap = c["cap"].as_u64().unwrap_or(4) as usize;
    let ops: Vec<(u64, u64)> = c["ops"]
        .as_array()
        .map(|a| a.iter().map(|p| (p[0].as_u64().unwrap_or(0), p[1].as_u64().unwrap_or(0))).collect())
        .unwrap_or_default();
    // the table API takes `&'a mut self` for the arena lifetime; the builder re-borrows through a raw
    // pointer, and so does this harness
    let tbl: *mut BackedRobinhoodTable<'static, u64> = Box::into_raw(Box::new(BackedRobinhoodTable::with_capacity(cap)));
    let mut seen: HashMap<(u64, u64), usize> = HashMap::new();
    let mut owner: HashMap<usize, (u64, u64)> = HashMap::new();
    for (i, (hash, elem)) in ops.iter().enumerate() {
        let r: &u64 = unsafe { (&mut *tbl).get_or_insert_by_hash(*hash, *elem, false) };
        if *r != *elem {
            return Err(format!("op {i}: request for element {elem} (hash {hash}) returned a slot holding {}", *r));
        }
        let addr = r as *const u64 as usize;
        if let Some(prev) = seen.get(&(*hash, *elem)) {
            if *prev != addr {
                return Err(format!(
                    "op {i}: element {elem} (hash {hash}) was requested before and is still in the table, but this request allocated a second copy (different address)"
                ));
            }
        } else {
            if let Some(o) = owner.get(&addr) {
                return Err(format!("op {i}: element {elem} got the address already handed out for {:?}", o));
            }
            seen.insert((*hash, *elem), addr);
            owner.insert(addr, (*hash, *elem));
        }
        let n = unsafe { (&*tbl).num_nodes() };
        if n != seen.len() {
            return Err(format!("op {i}: num_nodes() = {n} but {} distinct elements were inserted", seen.len()));
        }
    }
    Ok(())
}

/// all sequences of k distinct insertions with hashes from a small range, followed by re-requesting every
/// element (in insertion order); capacity 4 so that the first growth happens at the third insertion
pub fn candidates(seed: u64) -> Vec<Value> {
    let mut out = vec![];
    for cap in [4usize, 8] {
        let range: u64 = (2 * cap) as u64;
        let max_k = if cap == 4 { 4 } else { 3 };
        let mut stack: Vec<Vec<u64>> = vec![vec![]];
        while let Some(hs) = stack.pop() {
            if !hs.is_empty() {
                let mut ops: Vec<Value> = hs.iter().enumerate().map(|(i, h)| json!([h, 100 + i as u64])).collect();
                let again: Vec<Value> = ops.clone();
                ops.extend(again);
                out.push(json!({"case": "table_seq", "cap": cap, "ops": ops}));
            }
            if hs.len() < max_k {
                for h in 0..range {
                    let mut n = hs.clone();
                    n.push(h);
                    stack.push(n);
                }
            }
        }
    }
    // a few longer pseudo-random ones
    let mut s = seed.wrapping_mul(6364136223846793005).wrapping_add(99);
    for _ in 0..200 {
        let mut ops = vec![];
        for i in 0..12u64 {
            s = s.wrapping_mul(6364136223846793005).wrapping_add(1442695040888963407);
            ops.push(json!([(s >> 33) % 16, 100 + i]));
        }
        let again = ops.clone();
        ops.extend(again);
        out.push(json!({"case": "table_seq", "cap": 4, "ops": ops}));
    }
    out.sort_by_key(|c| c["ops"].as_array().map(|a| a.len()).unwrap_or(0));
    out
}
