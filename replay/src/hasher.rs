//! CnfHasher cases on the REAL code: over a push/decide/pop history (partial model kept in step with the decisions),
//! any two visited states that falsify no clause must have equal hashes exactly when their unsatisfied non-unit
//! clauses, restricted to unassigned literals, coincide clause by clause.  Sizes keep the prime product < 2^128.
use crate::CaseResult;
use rsdd::repr::{Cnf, CnfHasher, Literal, PartialModel, VarLabel};
use serde_json::{json, Value};

/// every partial assignment, reached the way the top-down compiler reaches it (push, decide, recurse, pop)
fn dfs(h: &mut CnfHasher, raw: &Vec<Vec<(usize, bool)>>, m: &mut Vec<Option<bool>>, from: usize,
       seen: &mut Vec<(Vec<(usize, Vec<(usize, bool)>)>, rsdd::repr::HashedCNF, Vec<Option<bool>>)>) -> CaseResult {
    let falsified = raw.iter().any(|cl| cl.iter().all(|(v, p)| m[*v] == Some(!*p)));
    if !falsified {
        let sig: Vec<(usize, Vec<(usize, bool)>)> = raw.iter().enumerate()
            .filter(|(_, cl)| cl.len() > 1 && !cl.iter().any(|(v, p)| m[*v] == Some(*p)))
            .map(|(i, cl)| (i, cl.iter().filter(|(v, _)| m[*v].is_none()).cloned().collect()))
            .collect();
        let hv = h.hash(&PartialModel::from_assignments(m));
        for (s2, h2, m2) in seen.iter() {
            if (*s2 == sig) != (*h2 == hv) {
                return Err(format!("partial assignments {:?} and {:?}: residual formulas {} but hashes {}", m2, m,
                    if *s2 == sig { "coincide" } else { "differ" }, if *h2 == hv { "are equal" } else { "differ" }));
            }
        }
        seen.push((sig, hv, m.clone()));
    }
    for v in from..m.len() {
        for p in [true, false] {
            h.push();
            h.decide(Literal::new(VarLabel::new(v as u64), p));
            m[v] = Some(p);
            let r = dfs(h, raw, m, v + 1, seen);
            m[v] = None;
            h.pop();
            r?;
        }
    }
    Ok(())
}

pub fn run(c: &Value) -> CaseResult {
    if c["case"].as_str() == Some("hasher_all") {
        let n = c["nvars"].as_u64().unwrap_or(4) as usize;
        let raw: Vec<Vec<(usize, bool)>> = c["cnf"].as_array().map(|cs| cs.iter().map(|cl| cl.as_array().map(|ls| ls.iter().map(|l| {
            let x = l.as_i64().unwrap_or(1);
            ((x.unsigned_abs() - 1) as usize, x > 0)
        }).collect()).unwrap_or_default()).collect()).unwrap_or_default();
        let cls: Vec<Vec<Literal>> = raw.iter().map(|cl| cl.iter().map(|(v, p)| Literal::new(VarLabel::new(*v as u64), *p)).collect()).collect();
        if c["via_cnf"].as_bool().unwrap_or(false) {
            // the hasher a Cnf carries: built by Cnf::new from clauses that may repeat literals and come unsorted; the
            // residual formula is read off the NORMALISED clauses the Cnf reports
            let cnf = Cnf::new(&cls);
            let norm: Vec<Vec<(usize, bool)>> = cnf.clauses().iter().map(|cl| cl.iter().map(|l| (l.label().value() as usize, l.polarity())).collect()).collect();
            let mut h = cnf.hasher().clone();
            return dfs(&mut h, &norm, &mut vec![None; cnf.num_vars()], 0, &mut vec![]);
        }
        let mut h = CnfHasher::new(&cls, n);
        return dfs(&mut h, &raw, &mut vec![None; n], 0, &mut vec![]);
    }
    let n = c["nvars"].as_u64().unwrap_or(4) as usize;
    let raw: Vec<Vec<(usize, bool)>> = c["cnf"].as_array().map(|cs| cs.iter().map(|cl| cl.as_array().map(|ls| ls.iter().map(|l| {
        let x = l.as_i64().unwrap_or(1);
        ((x.unsigned_abs() - 1) as usize, x > 0)
    }).collect()).unwrap_or_default()).collect()).unwrap_or_default();
    let cls: Vec<Vec<Literal>> = raw.iter().map(|cl| cl.iter().map(|(v, p)| Literal::new(VarLabel::new(*v as u64), *p)).collect()).collect();
    let mut h = CnfHasher::new(&cls, n);
    let mut models: Vec<Vec<Option<bool>>> = vec![vec![None; n]];
    let mut seen: Vec<(Vec<(usize, Vec<(usize, bool)>)>, rsdd::repr::HashedCNF, String)> = vec![];
    let oneway = c["oneway"].as_bool().unwrap_or(false);
    let ops = c["ops"].as_array().cloned().unwrap_or_default();
    for k in 0..=ops.len() {
        if k > 0 {
            let op = &ops[k - 1];
            match op[0].as_str().unwrap_or("") {
                "push" => { h.push(); let t = models.last().unwrap().clone(); models.push(t); }
                "pop" => { if models.len() > 1 { h.pop(); models.pop(); } }
                _ => {
                    let x = op[1].as_i64().unwrap_or(1);
                    let (v, p) = ((x.unsigned_abs() - 1) as usize, x > 0);
                    if v < n && models.last().unwrap()[v].is_none() {
                        h.decide(Literal::new(VarLabel::new(v as u64), p));
                        models.last_mut().unwrap()[v] = Some(p);
                    }
                }
            }
        }
        let m = models.last().unwrap();
        let falsified = raw.iter().any(|cl| cl.iter().all(|(v, p)| m[*v] == Some(!*p)));
        if falsified { continue; }
        let sig: Vec<(usize, Vec<(usize, bool)>)> = raw.iter().enumerate()
            .filter(|(_, cl)| cl.len() > 1 && !cl.iter().any(|(v, p)| m[*v] == Some(*p)))
            .map(|(i, cl)| (i, cl.iter().filter(|(v, _)| m[*v].is_none()).cloned().collect()))
            .collect();
        let hv = h.hash(&PartialModel::from_assignments(m));
        for (s2, h2, at) in seen.iter() {
            // with many literal occurrences the product of primes may wrap, so only "same residual => same hash" is demanded
            if (if oneway { *s2 == sig && *h2 != hv } else { (*s2 == sig) != (*h2 == hv) }) {
                return Err(format!("after op {k} (model {:?}) and {at}: residual formulas {} but hashes {}", m,
                    if *s2 == sig { "coincide" } else { "differ" }, if *h2 == hv { "are equal" } else { "differ" }));
            }
        }
        seen.push((sig, hv, format!("after op {k} (model {:?})", m)));
    }
    Ok(())
}

pub fn candidates(seed: u64) -> Vec<Value> {
    let mut out = vec![];
    let mut s = seed.wrapping_add(5150);
    let mut nx = |n: u64| { s = s.wrapping_mul(6364136223846793005).wrapping_add(1442695040888963407); (s >> 33) % n };
    // the documented example and a few fixed histories
    out.push(json!({"case": "hasher_hist", "nvars": 3, "cnf": [[1, 2], [-1, 3]], "ops": [["push"], ["decide", 1], ["pop"], ["push"], ["decide", -1], ["pop"], ["decide", 3]]}));
    out.push(json!({"case": "hasher_hist", "nvars": 3, "cnf": [[1, 2], [1, 2], [3]], "ops": [["push"], ["decide", -1], ["push"], ["decide", 3], ["pop"], ["pop"], ["decide", 2]]}));
    // size thresholds: labels up to 129 (few mentioned variables, at most 15 literal occurrences) and formulas of 66-80 clauses
    // (there only "same residual => same hash": the prime product may wrap)
    for t in 0..40 {
        let wide = t % 2 == 0;
        let k = 4 + nx(3) as usize;
        let mut labels: Vec<i64> = vec![];
        while labels.len() < k { let l = if wide { 1 + nx(130) as i64 } else { 1 + nx(8) as i64 }; if !labels.contains(&l) { labels.push(l); } }
        let ncl = if wide { 2 + nx(4) } else { 66 + nx(15) };
        let cnf: Vec<Vec<i64>> = (0..ncl).map(|_| { let w = 2 + nx(2) as usize; let mut vs: Vec<i64> = vec![]; while vs.len() < w { let v = labels[nx(k as u64) as usize]; if vs.iter().any(|x: &i64| x.abs() == v) { continue; } vs.push(if nx(2) == 0 { v } else { -v }); } vs.sort_by_key(|x| x.abs()); vs }).collect();
        let mut ops: Vec<Value> = vec![];
        let mut depth = 0;
        for _ in 0..(8 + nx(16)) {
            match nx(4) { 0 => { ops.push(json!(["push"])); depth += 1; } 1 if depth > 0 => { ops.push(json!(["pop"])); depth -= 1; } _ => { let v = labels[nx(k as u64) as usize]; ops.push(json!(["decide", if nx(2) == 0 { v } else { -v }])); } }
        }
        out.push(json!({"case": "hasher_hist", "nvars": if wide { 131 } else { 9 }, "cnf": cnf, "ops": ops, "oneway": !wide}));
    }
    // exhaustive over partial assignments: 3-5 variables, 2-5 clauses of 2-3 literals (at most 15 literal occurrences, so the
    // product of the first 15 primes bounds every hash: < 2^128).  Half of the formulas use one pivot variable in both
    // polarities and otherwise positive literals, so that the same literal occurs in several clauses.
    out.push(json!({"case": "hasher_all", "nvars": 5, "cnf": [[1, 2, 3], [1, 4, 5], [-1, 2, 4], [-1, 3, 5]]}));
    for k in 0..500 {
        let nv = 3 + nx(3);
        let ncl = 2 + nx(4);
        let pivot = k % 2 == 0;
        let cnf: Vec<Vec<i64>> = (0..ncl).map(|_| {
            let len = 2 + nx(2) as usize;
            let mut vs: Vec<i64> = vec![];
            if pivot { vs.push(if nx(2) == 0 { 1 } else { -1 }); }
            while vs.len() < len.min(nv as usize) {
                let v = 1 + nx(nv) as i64;
                if vs.iter().any(|x| x.abs() == v) { continue; }
                vs.push(if pivot || nx(2) == 0 { v } else { -v });
            }
            vs.sort_by_key(|x| x.abs());
            vs
        }).collect();
        out.push(json!({"case": "hasher_all", "nvars": nv, "cnf": cnf}));
        if k % 2 == 1 {
            // the same formula through Cnf::new, with a literal repeated in one clause, a clause that is one literal
            // repeated, and the literals of a clause in reverse order
            let mut raw2 = cnf.clone();
            let i = nx(raw2.len() as u64) as usize;
            let l0 = raw2[i][0];
            raw2[i].push(l0);
            let v = 1 + nx(nv) as i64;
            raw2.push(vec![v, v]);
            let j = nx(raw2.len() as u64) as usize;
            raw2[j].reverse();
            out.push(json!({"case": "hasher_all", "nvars": nv, "cnf": raw2, "via_cnf": true}));
        }
    }
    for _ in 0..600 {
        let nv = 2 + nx(3);
        let ncl = 1 + nx(5);
        let cnf: Vec<Vec<i64>> = (0..ncl).map(|_| {
            // distinct variables inside a clause, sorted by label (what Cnf::new produces)
            let mut vs: Vec<i64> = (1..=nv as i64).filter(|_| nx(2) == 0).collect();
            if vs.is_empty() { vs.push(1 + nx(nv) as i64); }
            vs.truncate(3);
            vs.into_iter().map(|v| if nx(2) == 0 { v } else { -v }).collect()
        }).collect();
        let mut ops: Vec<Value> = vec![];
        let mut depth = 0;
        for _ in 0..(4 + nx(12)) {
            match nx(4) {
                0 => { ops.push(json!(["push"])); depth += 1; }
                1 => { if depth > 0 { ops.push(json!(["pop"])); depth -= 1; } }
                _ => { let v = 1 + nx(nv) as i64; ops.push(json!(["decide", if nx(2) == 0 { v } else { -v }])); }
            }
        }
        out.push(json!({"case": "hasher_hist", "nvars": nv, "cnf": cnf, "ops": ops}));
    }
    out
}
