//! SDD builder programs on the REAL CompressionSddBuilder: straight-line programs of and / or / negate / ite / iff /
//! xor / condition / exists over 3-4 variables and several vtrees; every result is evaluated by a structural walk and
//! compared with the truth table the operation's definition gives.  Repeated sub-programs make the apply cache and
//! the ite cache hit; a cache that changed a result would show as a wrong truth table.
use crate::CaseResult;
use rsdd::builder::sdd::{CompressionSddBuilder, SddBuilder};
use rsdd::builder::BottomUpBuilder;
use rsdd::repr::{SddPtr, VTree, VarLabel};
use serde_json::{json, Value};

fn seval(p: SddPtr, a: &[bool]) -> bool {
    match p {
        SddPtr::PtrTrue => true,
        SddPtr::PtrFalse => false,
        SddPtr::Var(l, pol) => a[l.value() as usize] == pol,
        SddPtr::BDD(b) => if a[b.label().value() as usize] { seval(b.high(), a) } else { seval(b.low(), a) },
        SddPtr::ComplBDD(b) => !seval(SddPtr::BDD(b), a),
        SddPtr::Reg(o) => o.iter().any(|n| seval(n.prime(), a) && seval(n.sub(), a)),
        SddPtr::Compl(o) => !seval(SddPtr::Reg(o), a),
    }
}
fn vtree(v: &Value) -> VTree {
    match v.as_array() {
        Some(a) => VTree::new_node(Box::new(vtree(&a[0])), Box::new(vtree(&a[1]))),
        None => VTree::new_leaf(VarLabel::new(v.as_u64().unwrap_or(0))),
    }
}
fn vleaves(v: &Value, out: &mut Vec<u64>) { match v.as_array() { Some(a) => { vleaves(&a[0], out); vleaves(&a[1], out); } None => out.push(v.as_u64().unwrap_or(0)) } }

fn run_on<'a, B: SddBuilder<'a>>(b: &'a B, nv: usize, ops: &[Value]) -> CaseResult {
    let nm = 1usize << nv;
    let table = |p: SddPtr| -> Vec<bool> { (0..nm).map(|m| { let a: Vec<bool> = (0..nv).map(|i| (m >> i) & 1 == 1).collect(); seval(p, &a) }).collect() };
    let mut ds: Vec<SddPtr> = vec![];
    let mut ts: Vec<Vec<bool>> = vec![];
    let ix = |v: &Value| v.as_u64().unwrap_or(0) as usize;
    for (k, op) in ops.iter().enumerate() {
        let name = op[0].as_str().unwrap_or("");
        let g = |i: usize| -> (SddPtr, Vec<bool>) { let i = i % ds.len().max(1); (ds[i], ts[i].clone()) };
        let (r, want): (SddPtr, Vec<bool>) = match name {
            "var" => { let (l, p) = (ix(&op[1]) % nv, op[2].as_bool().unwrap_or(true)); (b.var(VarLabel::new(l as u64), p), (0..nm).map(|m| ((m >> l) & 1 == 1) == p).collect()) }
            "neg" => { let (x, t) = g(ix(&op[1])); (b.negate(x), t.iter().map(|v| !v).collect()) }
            "and" | "or" | "iff" | "xor" => {
                let ((x, tx), (y, ty)) = (g(ix(&op[1])), g(ix(&op[2])));
                let r = match name { "and" => b.and(x, y), "or" => b.or(x, y), "iff" => b.iff(x, y), _ => b.xor(x, y) };
                (r, (0..nm).map(|m| match name { "and" => tx[m] && ty[m], "or" => tx[m] || ty[m], "iff" => tx[m] == ty[m], _ => tx[m] != ty[m] }).collect())
            }
            "ite" => { let ((x, tx), (y, ty), (z, tz)) = (g(ix(&op[1])), g(ix(&op[2])), g(ix(&op[3]))); (b.ite(x, y, z), (0..nm).map(|m| if tx[m] { ty[m] } else { tz[m] }).collect()) }
            "cond" => { let (x, tx) = g(ix(&op[1])); let (l, v) = (ix(&op[2]) % nv, op[3].as_bool().unwrap_or(true)); (b.condition(x, VarLabel::new(l as u64), v), (0..nm).map(|m| tx[if v { m | (1 << l) } else { m & !(1 << l) }]).collect()) }
            "exists" => { let (x, tx) = g(ix(&op[1])); let l = ix(&op[2]) % nv; (b.exists(x, VarLabel::new(l as u64)), (0..nm).map(|m| tx[m | (1 << l)] || tx[m & !(1 << l)]).collect()) }
            other => return Err(format!("unknown op {other}")),
        };
        let got = table(r);
        if got != want {
            let m = (0..nm).find(|m| got[*m] != want[*m]).unwrap();
            return Err(format!("SDD op {k} {op}: result is {} on assignment {m:#b}, the operation's definition gives {}", got[m], want[m]));
        }
        // same function => same pointer (the caches and the unique tables must agree), and earlier results keep their meaning
        for (i, d) in ds.iter().enumerate() {
            if table(*d) != ts[i] { return Err(format!("after SDD op {k}, diagram {i} no longer denotes its function")); }
        }
        ds.push(r); ts.push(want);
    }
    Ok(())
}

pub fn run(c: &Value) -> CaseResult {
    let mut ls = vec![]; vleaves(&c["vtree"], &mut ls);
    let b = CompressionSddBuilder::new(vtree(&c["vtree"]));
    let ops: Vec<Value> = c["ops"].as_array().cloned().unwrap_or_default();
    run_on(&b, ls.len(), &ops)
}

pub fn candidates(seed: u64) -> Vec<Value> {
    let mut out = vec![];
    let mut s = seed.wrapping_add(4711);
    let mut nx = |n: u64| { s = s.wrapping_mul(6364136223846793005).wrapping_add(1442695040888963407); (s >> 33) % n };
    let vts = [json!([[0, 1], 2]), json!([0, [1, 2]]), json!([[2, 0], 1]), json!([1, [2, 0]]), json!([[0, 1], [2, 3]]), json!([[[3, 1], 0], 2]), json!([2, [0, [3, 1]]]), json!([[1, [3, 0]], 2])];
    // systematic: two non-literal operands f, g (binary operations on literals), then iff / xor and every ite built from
    // f, g, their negations and the constants -- in ONE builder per (vtree, f, g), so that the ite cache entries written by
    // the first operations are read by the later ones
    {
        let vt3 = [json!([[0, 1], 2]), json!([0, [1, 2]]), json!([[2, 0], 1]), json!([1, [2, 0]]), json!([[1, 2], 0]), json!([2, [1, 0]])];
        // operand shapes: (op, literal a, literal b) with literals 0..5 = x0, !x0, x1, !x1, x2, !x2
        let shapes: Vec<(&str, usize, usize)> = vec![("and", 0, 2), ("or", 1, 4), ("and", 2, 5), ("xor", 0, 4), ("or", 0, 3), ("and", 1, 3), ("or", 2, 4), ("xor", 2, 5)];
        let mut cnt = 0usize;
        for (fi, f) in shapes.iter().enumerate() { for (gi, g) in shapes.iter().enumerate() {
            if fi == gi { continue; }
            let vt = vt3[cnt % 6].clone(); cnt += 1;
            let mut ops: Vec<Value> = (0..3).flat_map(|l| vec![json!(["var", l, true]), json!(["var", l, false])]).collect();
            ops.push(json!([f.0, f.1, f.2]));   // 6: f
            ops.push(json!([g.0, g.1, g.2]));   // 7: g
            ops.push(json!(["neg", 6]));        // 8: !f
            ops.push(json!(["neg", 7]));        // 9: !g
            ops.push(json!(["iff", 6, 7]));
            ops.push(json!(["xor", 6, 7]));
            ops.push(json!(["or", 7, 8]));      // 12: true-ish helper: g | !f
            ops.push(json!(["and", 6, 8]));     // 13: the false constant
            ops.push(json!(["neg", 13]));       // 14: the true constant
            for (a, b2, c) in [(7, 6, 14), (7, 6, 9), (9, 14, 6), (7, 8, 13), (7, 8, 7), (9, 13, 8), (6, 7, 9), (6, 7, 14), (6, 9, 7), (8, 7, 6), (6, 14, 7), (7, 13, 6)] {
                ops.push(json!(["ite", a, b2, c]));
            }
            ops.push(json!(["iff", 7, 6]));
            ops.push(json!(["xor", 8, 7]));
            out.push(json!({"case": "sdd_prog", "vtree": vt, "ops": ops}));
        } }
    }
    for t in 0..1200 {
        let vt = vts[nx(8) as usize].clone();
        let mut ops: Vec<Value> = (0..3).map(|l| json!(["var", l, true])).collect();
        ops.push(json!(["var", 3, nx(2) == 0]));
        for _ in 0..(5 + nx(10)) {
            let n = ops.len() as u64;
            let op = match nx(10) {
                0 => json!(["neg", nx(n)]),
                1 | 2 => json!(["and", nx(n), nx(n)]),
                3 => json!(["or", nx(n), nx(n)]),
                4 => json!(["iff", nx(n), nx(n)]),
                5 => json!(["xor", nx(n), nx(n)]),
                6 => json!(["ite", nx(n), nx(n), nx(n)]),
                7 => json!(["cond", nx(n), nx(4), nx(2) == 0]),
                8 => json!(["exists", nx(n), nx(4)]),
                // repeat an earlier operation verbatim: a cache hit
                _ => { let k = 4 + nx(n - 4 + 1) as usize; if k < ops.len() { ops[k].clone() } else { json!(["and", nx(n), nx(n)]) } }
            };
            ops.push(op);
        }
        let _ = t;
        out.push(json!({"case": "sdd_prog", "vtree": vt, "ops": ops}));
    }
    out
}
