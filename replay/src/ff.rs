//! finite-field cases: the real `FiniteField<P>` operators against a reference computed without overflow
use crate::CaseResult;
use rsdd::constants::primes;
use rsdd::util::semirings::{FiniteField, Semiring};
use serde_json::{json, Value};

/// (a*b) mod p without overflow for p < 2^127 (double-and-add)
fn mulmod(mut a: u128, mut b: u128, p: u128) -> u128 {
    let mut r = 0u128;
    a %= p;
    b %= p;
    while b > 0 {
        if b & 1 == 1 {
            r = (r + a) % p;
        }
        a = (a + a) % p;
        b >>= 1;
    }
    r
}

fn run_p<const P: u128>(op: &str, a: u128, b: u128, c: u128) -> CaseResult {
    let (x, y, z) = (FiniteField::<P>::new(a), FiniteField::<P>::new(b), FiniteField::<P>::new(c));
    let (a, b, c) = (a % P, b % P, c % P);
    let chk = |what: &str, got: u128, want: u128| -> CaseResult {
        if got == want { Ok(()) } else { Err(format!("{what}: got {got}, integer arithmetic modulo {P} gives {want}")) }
    };
    match op {
        "add" => chk("a+b", (x + y).value(), (a + b) % P),
        "mul" => chk("a*b", (x * y).value(), mulmod(a, b, P)),
        "sub" => chk("a-b", (x - y).value(), (a + (P - b)) % P),
        "sub_inverts_add" => chk("(a-b)+b", ((x - y) + y).value(), a),
        "add_assoc" => chk("(a+b)+c vs a+(b+c)", ((x + y) + z).value(), (x + (y + z)).value()),
        "mul_assoc" => chk("(a*b)*c vs a*(b*c)", ((x * y) * z).value(), (x * (y * z)).value()),
        "distrib" => chk("a*(b+c) vs a*b+a*c", (x * (y + z)).value(), ((x * y) + (x * z)).value()),
        "negate" => chk("negate(a) vs 1-a", x.negate().value(), (1 + (P - a)) % P),
        "one_zero" => {
            chk("one", FiniteField::<P>::one().value(), 1 % P)?;
            chk("zero", FiniteField::<P>::zero().value(), 0)
        }
        _ => Err(format!("unknown ff op {op}")),
    }
}

pub const PRIMES: [(&str, u128); 7] = [
    ("U32_TINY", primes::U32_TINY),
    ("U32_SMALL", primes::U32_SMALL),
    ("U64_LARGEST", primes::U64_LARGEST),
    ("U128_LARGE_1", primes::U128_LARGE_1),
    ("U128_LARGE_2", primes::U128_LARGE_2),
    ("U128_LARGE_3", primes::U128_LARGE_3),
    ("U128_LARGE_4", primes::U128_LARGE_4),
];

fn num(v: &Value) -> u128 {
    v.as_str().and_then(|s| s.parse().ok()).or_else(|| v.as_u64().map(|x| x as u128)).unwrap_or(0)
}

pub fn run(c: &Value) -> CaseResult {
    let op = c["case"].as_str().unwrap().trim_start_matches("ff_").to_string();
    let (a, b, cc) = (num(&c["a"]), num(&c["b"]), num(&c["c"]));
    match c["prime"].as_str().unwrap_or("") {
        "U32_TINY" => run_p::<{ primes::U32_TINY }>(&op, a, b, cc),
        "U32_SMALL" => run_p::<{ primes::U32_SMALL }>(&op, a, b, cc),
        "U64_LARGEST" => run_p::<{ primes::U64_LARGEST }>(&op, a, b, cc),
        "U128_LARGE_1" => run_p::<{ primes::U128_LARGE_1 }>(&op, a, b, cc),
        "U128_LARGE_2" => run_p::<{ primes::U128_LARGE_2 }>(&op, a, b, cc),
        "U128_LARGE_3" => run_p::<{ primes::U128_LARGE_3 }>(&op, a, b, cc),
        "U128_LARGE_4" => run_p::<{ primes::U128_LARGE_4 }>(&op, a, b, cc),
        p => Err(format!("unknown prime {p}")),
    }
}

/// boundary residues near 0, P/2, P-1 plus a few pseudo-random ones
pub fn candidates(function: &str, obligation: &str, seed: u64, _hint: Option<&Value>) -> Vec<Value> {
    let mut ops: Vec<&str> = match function {
        "add" => vec!["add", "add_assoc"],
        "mul" => vec!["mul", "mul_assoc", "distrib"],
        "sub" => vec!["sub", "sub_inverts_add"],
        "negate" => vec!["negate"],
        "one" | "zero" => vec!["one_zero"],
        "new" | "value" => vec!["add", "mul", "sub", "one_zero"],
        _ => vec!["add", "mul", "sub", "sub_inverts_add", "negate", "one_zero", "add_assoc", "mul_assoc", "distrib"],
    };
    if obligation.contains("prime_ok") {
        ops = vec!["mul", "add", "sub"];
    }
    let mut out = vec![];
    let mut s = seed.wrapping_mul(6364136223846793005).wrapping_add(1442695040888963407);
    for (name, p) in PRIMES.iter() {
        if obligation.contains("prime_ok_") && !obligation.contains(&format!("prime_ok_{name}")) {
            continue;
        }
        let mut vals: Vec<u128> = vec![0, 1, 2, 3, p / 2, p / 2 + 1, p - 2, p - 1];
        for _ in 0..4 {
            s = s.wrapping_mul(6364136223846793005).wrapping_add(1442695040888963407);
            vals.push(((s as u128) << 64 | (s.rotate_left(17) as u128)) % p);
        }
        for op in ops.iter() {
            for &a in vals.iter() {
                for &b in vals.iter() {
                    let cs: Vec<u128> = if op.contains("assoc") || *op == "distrib" { vec![1, p / 2, p - 1] } else { vec![0] };
                    for c in cs {
                        out.push(json!({"case": format!("ff_{op}"), "prime": name, "a": a.to_string(), "b": b.to_string(), "c": c.to_string()}));
                    }
                }
            }
        }
    }
    out
}
