//! lossy-cache cases on the REAL rsdd::util::lru::Lru driven with caller-chosen hashes: a lookup must return
//! nothing or the value most recently inserted under exactly that key
use crate::CaseResult;
use rsdd::util::lru::Lru;
use serde_json::{json, Value};
use std::collections::HashMap;

pub fn run(c: &Value) -> CaseResult {
    let cap = c["cap"].as_u64().unwrap_or(1) as usize;
    let mut l: Lru<u32, u32> = Lru::new(cap);
    let mut latest: HashMap<u32, u32> = HashMap::new();
    for (k, op) in c["ops"].as_array().cloned().unwrap_or_default().iter().enumerate() {
        let key = op[1].as_u64().unwrap_or(0) as u32;
        match op[0].as_str().unwrap_or("") {
            "ins" => {
                let (val, hash) = (op[2].as_u64().unwrap_or(0) as u32, op[3].as_u64().unwrap_or(0));
                l.insert(key, val, hash);
                latest.insert(key, val);
            }
            _ => {
                let hash = op[2].as_u64().unwrap_or(0);
                match l.get(key, hash) {
                    None => (),
                    Some(v) => match latest.get(&key) {
                        None => return Err(format!("op {k}: get({key}) returned {v} but nothing was ever inserted under that key")),
                        Some(w) if *w != v => return Err(format!("op {k}: get({key}) returned {v}; the value most recently inserted under that key is {w}")),
                        _ => (),
                    },
                }
            }
        }
    }
    Ok(())
}

pub fn candidates(seed: u64) -> Vec<Value> {
    let mut out = vec![];
    // every key has ONE hash (a function of the key); different keys may share a hash or a slot
    let mut s = seed.wrapping_add(555);
    let mut nx = |n: u64| { s = s.wrapping_mul(6364136223846793005).wrapping_add(1442695040888963407); (s >> 33) % n };
    for round in 0..3000 {
        let nkeys = 2 + nx(if round < 1500 { 6 } else { 14 });
        // hashes that differ in low bits, in bits just above the initial capacity (they move when the table grows), or anywhere
        let hashes: Vec<u64> = (0..nkeys).map(|_| match nx(4) { 0 => nx(4), 1 => nx(4) + 4 * nx(8), 2 => nx(64), _ => nx(1 << 20) }).collect();
        let len = 4 + nx(if round < 1500 { 12 } else { 60 });
        let mut ops = vec![];
        for i in 0..len {
            let k = nx(nkeys);
            // overwrites of the same key are frequent: staleness after growth needs them
            if nx(3) != 0 { ops.push(json!(["ins", k, 1000 + i, hashes[k as usize]])); } else { ops.push(json!(["get", k, hashes[k as usize]])); }
        }
        // read everything back at the end
        for k in 0..nkeys { ops.push(json!(["get", k, hashes[k as usize]])); }
        out.push(json!({"case": "lru_seq", "cap": 1 + nx(2), "ops": ops}));
    }
    out.sort_by_key(|c| c["ops"].as_array().map(|a| a.len()).unwrap_or(0));
    out
}
