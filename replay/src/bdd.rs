//! BDD-builder cases: a small straight-line program of builder operations is run on the REAL RobddBuilder;
//! after every operation the result's truth table (computed by walking the node structure, not by the
//! library's evaluator) is compared with the operation's definition, and shape / canonicity are checked.
use crate::CaseResult;
use rsdd::builder::bdd::RobddBuilder;
use rsdd::builder::cache::{AllIteTable, IteTable, LruIteTable};
use rsdd::builder::BottomUpBuilder;
use rsdd::constants::primes;
use rsdd::builder::bdd::BddBuilder;
use rsdd::repr::{create_semantic_hash_map, BddPtr, DDNNFPtr, PartialModel, VarLabel, VarOrder, WmcParams};
use rsdd::util::semirings::FiniteField;
use std::collections::HashMap;
use serde_json::{json, Value};

fn eval(p: BddPtr, a: &[bool]) -> bool {
    match p {
        BddPtr::PtrTrue => true,
        BddPtr::PtrFalse => false,
        BddPtr::Reg(n) => {
            if a[n.var.value() as usize] {
                eval(n.high, a)
            } else {
                eval(n.low, a)
            }
        }
        BddPtr::Compl(n) => !eval(BddPtr::Reg(n), a),
    }
}

fn table(p: BddPtr, nv: usize) -> Vec<bool> {
    (0..(1usize << nv)).map(|m| eval(p, &(0..nv).map(|i| (m >> i) & 1 == 1).collect::<Vec<_>>())).collect()
}

fn assign(m: usize, nv: usize) -> Vec<bool> {
    (0..nv).map(|i| (m >> i) & 1 == 1).collect()
}

/// ordered / reduced / complement-normal shape (C02)
fn shape(p: BddPtr, order: &VarOrder, min_pos: Option<usize>) -> Result<(), String> {
    match p {
        BddPtr::PtrTrue | BddPtr::PtrFalse => Ok(()),
        BddPtr::Reg(n) | BddPtr::Compl(n) => {
            let pos = order.get(n.var);
            if let Some(mp) = min_pos {
                if pos <= mp {
                    return Err(format!("variable {} at position {} appears below position {}", n.var.value(), pos, mp));
                }
            }
            if n.low == n.high {
                return Err(format!("node on variable {} has two identical children", n.var.value()));
            }
            if n.high.is_neg() || n.high.is_false() {
                return Err(format!("node on variable {} has a complemented or false high edge", n.var.value()));
            }
            shape(n.low, order, Some(pos))?;
            shape(n.high, order, Some(pos))
        }
    }
}

/// every path tests the variables at levels from..n exactly once, in order
fn smooth_ok(p: BddPtr, order: &VarOrder, level: usize, n: usize) -> Result<(), String> {
    if level >= n {
        return Ok(());
    }
    match p {
        BddPtr::PtrTrue | BddPtr::PtrFalse => Err(format!("a path ends at level {level} without testing levels {level}..{n}")),
        BddPtr::Reg(nd) | BddPtr::Compl(nd) => {
            let want = order.var_at_level(level);
            if nd.var != want {
                return Err(format!("at level {level} a path tests variable {} instead of {}", nd.var.value(), want.value()));
            }
            smooth_ok(nd.low, order, level + 1, n)?;
            smooth_ok(nd.high, order, level + 1, n)
        }
    }
}

fn run_with<'a, T: IteTable<'a, BddPtr<'a>> + Default>(b: &'a RobddBuilder<'a, T>, nv: usize, ops: &[Value], check_shape: bool) -> CaseResult {
    let mut ds: Vec<BddPtr<'a>> = vec![];
    let mut tts: Vec<Vec<bool>> = vec![];
    // smoothed diagrams are deliberately not reduced: they, and anything built from them, are exempt from the
    // canonical-form checks
    let mut canon: Vec<bool> = vec![];
    let nm = 1usize << nv;
    let ix = |v: &Value| v.as_u64().unwrap_or(0) as usize;
    for (k, op) in ops.iter().enumerate() {
        let name = op[0].as_str().unwrap_or("");
        let get = |i: usize| -> Result<(BddPtr<'a>, Vec<bool>), String> {
            if i < ds.len() { Ok((ds[i], tts[i].clone())) } else { Err(format!("op {k}: bad operand index {i}")) }
        };
        let (r, want): (BddPtr<'a>, Vec<bool>) = match name {
            "true" => (b.true_ptr(), vec![true; nm]),
            "false" => (b.false_ptr(), vec![false; nm]),
            "var" => {
                let (l, pol) = (ix(&op[1]), op[2].as_bool().unwrap_or(true));
                (b.var(VarLabel::new(l as u64), pol), (0..nm).map(|m| ((m >> l) & 1 == 1) == pol).collect())
            }
            "neg" => { let (x, tx) = get(ix(&op[1]))?; (b.negate(x), tx.iter().map(|v| !v).collect()) }
            "and" | "or" | "iff" | "xor" => {
                let (x, tx) = get(ix(&op[1]))?;
                let (y, ty) = get(ix(&op[2]))?;
                let f = |a: bool, c: bool| match name { "and" => a && c, "or" => a || c, "iff" => a == c, _ => a != c };
                let r = match name { "and" => b.and(x, y), "or" => b.or(x, y), "iff" => b.iff(x, y), _ => b.xor(x, y) };
                (r, (0..nm).map(|m| f(tx[m], ty[m])).collect())
            }
            "ite" => {
                let (x, tx) = get(ix(&op[1]))?;
                let (y, ty) = get(ix(&op[2]))?;
                let (z, tz) = get(ix(&op[3]))?;
                (b.ite(x, y, z), (0..nm).map(|m| if tx[m] { ty[m] } else { tz[m] }).collect())
            }
            "cond" => {
                let (x, tx) = get(ix(&op[1]))?;
                let (l, v) = (ix(&op[2]), op[3].as_bool().unwrap_or(true));
                let r = b.condition(x, VarLabel::new(l as u64), v);
                (r, (0..nm).map(|m| tx[if v { m | (1 << l) } else { m & !(1 << l) }]).collect())
            }
            "exists" => {
                let (x, tx) = get(ix(&op[1]))?;
                let l = ix(&op[2]);
                (b.exists(x, VarLabel::new(l as u64)), (0..nm).map(|m| tx[m | (1 << l)] || tx[m & !(1 << l)]).collect())
            }
            "compose" => {
                // documented definition: exists v. (v <=> g) /\ f
                let (x, tx) = get(ix(&op[1]))?;
                let l = ix(&op[2]);
                let (y, ty) = get(ix(&op[3]))?;
                let r = b.compose(x, VarLabel::new(l as u64), y);
                (r, (0..nm).map(|m| { let (t, f) = (m | (1 << l), m & !(1 << l)); (ty[t] && tx[t]) || (!ty[f] && tx[f]) }).collect())
            }
            "condmodel" => {
                // condition on a partial model: op[2] is a list of (label, value) pairs
                let (x, tx) = get(ix(&op[1]))?;
                let mut pa: Vec<Option<bool>> = vec![None; nv];
                for pr in op[2].as_array().cloned().unwrap_or_default() { pa[ix(&pr[0]) % nv] = Some(pr[1].as_bool().unwrap_or(true)); }
                let m = PartialModel::from_assignments(&pa);
                let r = b.condition_model(x, &m);
                let want: Vec<bool> = (0..nm).map(|mm| { let mut m2 = mm; for (l, v) in pa.iter().enumerate() { if let Some(v) = v { if *v { m2 |= 1 << l } else { m2 &= !(1 << l) } } } tx[m2] }).collect();
                (r, want)
            }
            "andlst" | "orlst" => {
                let idxs: Vec<usize> = op[1].as_array().map(|a| a.iter().map(ix).collect()).unwrap_or_default();
                let mut ps = vec![]; let mut ts = vec![];
                for i in idxs.iter() { let (x, tx) = get(*i)?; ps.push(x); ts.push(tx); }
                if name == "andlst" { (b.and_lst(&ps), (0..nm).map(|m| ts.iter().all(|t| t[m])).collect()) }
                else { (b.or_lst(&ps), (0..nm).map(|m| ts.iter().any(|t| t[m])).collect()) }
            }
            "semhash" => {
                // a query: fills the per-node semantic-hash cache; must not disturb anything (the diagram is pushed again)
                let (x, tx) = get(ix(&op[1]))?;
                let map = create_semantic_hash_map::<{ primes::U32_SMALL }>(nv);
                let _ = x.cached_semantic_hash(b.order(), &map);
                (x, tx)
            }
            "smooth" => {
                let (x, tx) = get(ix(&op[1]))?;
                let n = ix(&op[2]);
                let r = b.smooth(x, n);
                if let Err(e) = smooth_ok(r, b.order(), 0, n) {
                    return Err(format!("op {k} smooth: {e}"));
                }
                let got = table(r, nv);
                if got != tx {
                    return Err(format!("op {k} smooth changed the function: {:?} -> {:?}", tx, got));
                }
                // counting consequence: smoothed over all variables, the plain (unsmoothed) weighted count equals the
                // brute-force weighted sum over models for arbitrary, non-normalised weights; unit weights count models
                if n == nv {
                    const P: u128 = 1_000_000_007;
                    for ws in [[(1u128, 1u128); 3], [(2, 3), (5, 7), (11, 13)], [(0, 4), (9, 1), (6, 6)]] {
                        let mut hm: HashMap<VarLabel, (FiniteField<P>, FiniteField<P>)> = HashMap::new();
                        for i in 0..nv { hm.insert(VarLabel::new(i as u64), (FiniteField::new(ws[i % 3].0), FiniteField::new(ws[i % 3].1))); }
                        let got = r.unsmoothed_wmc(&WmcParams::new(hm)).value();
                        let mut want: u128 = 0;
                        for m in 0..nm { if tx[m] { let mut w = 1u128; for i in 0..nv { w = w * (if (m >> i) & 1 == 1 { ws[i % 3].1 } else { ws[i % 3].0 }) % P; } want = (want + w) % P; } }
                        if got != want { return Err(format!("op {k} smooth: weighted count of the smoothed diagram is {got}, the sum over models with weights {:?} is {want}", ws)); }
                    }
                }
                ds.push(r);
                tts.push(tx);
                canon.push(false);
                continue;
            }
            other => return Err(format!("unknown op {other}")),
        };
        let got = table(r, nv);
        if got != want {
            let m = (0..nm).find(|m| got[*m] != want[*m]).unwrap();
            return Err(format!("op {k} {op}: result is {} on assignment {:?}, the operation's definition gives {}", got[m], assign(m, nv), want[m]));
        }
        // earlier diagrams must still denote what they denoted (later history)
        for (i, d) in ds.iter().enumerate() {
            if table(*d, nv) != tts[i] {
                return Err(format!("after op {k}, diagram {i} no longer denotes its function"));
            }
        }
        let list_ok = match name { "andlst" | "orlst" => op[1].as_array().map(|a| a.iter().all(|v| canon[ix(v)])).unwrap_or(true), _ => true };
        let operands_canon = list_ok && op.as_array().map(|a| a.iter().skip(1).all(|v| match v.as_u64() { Some(i) if name != "var" && name != "cond" && name != "exists" => (i as usize) >= canon.len() || canon[i as usize], _ => true })).unwrap_or(true)
            && match name { "cond" | "exists" => canon[ix(&op[1])], "compose" => canon[ix(&op[1])] && canon[ix(&op[3])], _ => true };
        if check_shape && operands_canon {
            if let Err(e) = shape(r, b.order(), None) {
                return Err(format!("[canonicity] op {k} {op}: {e}"));
            }
            for (i, d) in ds.iter().enumerate() {
                if canon[i] && (tts[i] == want) != b.eq(*d, r) {
                    return Err(format!("[canonicity] op {k} {op}: diagrams {i} and {k} denote {} functions but eq() says {}", if tts[i] == want { "equal" } else { "different" }, b.eq(*d, r)));
                }
            }
        }
        ds.push(r);
        tts.push(want);
        canon.push(operands_canon);
    }
    Ok(())
}

fn build_all<'a>(b: &'a RobddBuilder<'a, AllIteTable<BddPtr<'a>>>, n0: usize) -> Vec<BddPtr<'a>> {
    let vs: Vec<BddPtr> = (0..n0).map(|l| b.var(VarLabel::new(l as u64), true)).collect();
    let mut out = vs.clone();
    for i in 0..n0 { for j in 0..n0 { out.push(b.and(vs[i], vs[j])); out.push(b.or(vs[i], vs[j].neg())); out.push(b.xor(vs[i], vs[j])); } }
    out
}

/// variables added at run time: new_var on a builder with a (possibly non-linear) order, then operations over old and new variables
fn run_newvar(c: &Value) -> CaseResult {
    let order: Vec<VarLabel> = c["order"].as_array().map(|a| a.iter().map(|v| VarLabel::new(v.as_u64().unwrap_or(0))).collect()).unwrap_or_default();
    let n0 = order.len();
    let b = RobddBuilder::<AllIteTable<BddPtr>>::new(VarOrder::new(&order));
    let old: Vec<BddPtr> = (0..n0).map(|l| b.var(VarLabel::new(l as u64), true)).collect();
    let f = if n0 >= 2 { b.and(old[0], b.or(old[1], old[n0 - 1].neg())) } else { old[0] };
    let tf = table(f, n0);
    let (lbl, nvp) = b.new_var(c["pol"].as_bool().unwrap_or(true));
    if lbl.value() as usize != n0 { return Err(format!("new_var returned label {} on a builder with {} variables", lbl.value(), n0)); }
    let nv = n0 + 1;
    // the old diagram keeps its function (it does not depend on the new variable)
    let tf2 = table(f, nv);
    for m in 0..(1usize << nv) { if tf2[m] != tf[m & ((1 << n0) - 1)] { return Err("a diagram built before new_var changed its function".into()); } }
    let g = b.and(f, nvp);
    let h = b.exists(b.iff(g, old[0]), lbl);
    let pol = c["pol"].as_bool().unwrap_or(true);
    for m in 0..(1usize << nv) {
        let a: Vec<bool> = (0..nv).map(|i| (m >> i) & 1 == 1).collect();
        let fv = tf[m & ((1 << n0) - 1)];
        if eval(g, &a) != (fv && (a[n0] == pol)) { return Err(format!("and(f, new variable) wrong on {:?}", a)); }
        let w = |x: bool| (fv && (x == pol)) == a[0];
        if eval(h, &a) != (w(true) || w(false)) { return Err(format!("exists over the new variable wrong on {:?}", a)); }
    }
    // canonicity across the extension: the same functions requested again after new_var (and after a second new_var)
    // must be the same pointers as before
    if c["shape"].as_bool().unwrap_or(true) {
        let before = { let mut v = old.clone(); for i in 0..n0 { for j in 0..n0 { v.push(b.and(old[i], old[j])); v.push(b.or(old[i], old[j].neg())); v.push(b.xor(old[i], old[j])); } } v };
        let after1 = build_all(&b, n0);
        let _ = b.new_var(!pol);
        let after2 = build_all(&b, n0);
        for (k, x) in before.iter().enumerate() {
            if !b.eq(*x, after1[k]) { return Err(format!("[canonicity] function {k} built before new_var and again after it: same function, eq() says different")); }
            if !b.eq(*x, after2[k]) { return Err(format!("[canonicity] function {k} built before new_var and again after a second new_var: same function, eq() says different")); }
        }
    }
    if !c["shape"].as_bool().unwrap_or(true) { return Ok(()); }
    shape(g, b.order(), None).map_err(|e| format!("[canonicity] after new_var: {e}"))
}

pub fn run(c: &Value) -> CaseResult {
    // "only": "canonicity" keeps shape/equality failures only (semantic failures belong to other properties)
    match run_all(c) {
        Err(e) if c["only"].as_str() == Some("canonicity") && !e.starts_with("[canonicity]") && !e.starts_with("panicked") => Ok(()),
        r => r,
    }
}

fn run_all(c: &Value) -> CaseResult {
    if c["case"].as_str() == Some("bdd_newvar") { return run_newvar(c); }
    let order: Vec<VarLabel> = c["order"].as_array().map(|a| a.iter().map(|v| VarLabel::new(v.as_u64().unwrap_or(0))).collect()).unwrap_or_default();
    let nv = order.len();
    let ops: Vec<Value> = c["ops"].as_array().cloned().unwrap_or_default();
    let check_shape = c["shape"].as_bool().unwrap_or(true);
    if c["cache"].as_str() == Some("lru") {
        let b = RobddBuilder::<LruIteTable<BddPtr>>::new(VarOrder::new(&order));
        run_with(&b, nv, &ops, check_shape)
    } else {
        let b = RobddBuilder::<AllIteTable<BddPtr>>::new(VarOrder::new(&order));
        run_with(&b, nv, &ops, check_shape)
    }
}

struct Rng(u64);
impl Rng {
    fn next(&mut self, n: usize) -> usize {
        self.0 = self.0.wrapping_mul(6364136223846793005).wrapping_add(1442695040888963407);
        ((self.0 >> 33) as usize) % n
    }
}

const ORDERS: [[u64; 3]; 6] = [[0, 1, 2], [0, 2, 1], [1, 0, 2], [1, 2, 0], [2, 0, 1], [2, 1, 0]];

/// `focus`: the function whose obligation failed (steers which operations are generated)
pub fn candidates(function: &str, seed: u64) -> Vec<Value> {
    let mut out = vec![];
    let smooth_only = function.contains("smooth") || function.contains("prop:C08");
    // shape / canonicity conditions belong to C02 only
    let shape = !function.contains("prop:") || function.contains("prop:C02") || function.contains("prop:C16");
    let only = if function.contains("prop:C02") { json!("canonicity") } else { Value::Null };
    let lru_only = function.contains("prop:C16");
    // systematic: every operation on every pair of literals / small functions, all orders, both caches
    let lits: Vec<Value> = (0..3).flat_map(|l| vec![json!(["var", l, true]), json!(["var", l, false])]).collect();
    for order in ORDERS.iter() {
        for cache in ["all", "lru"] {
            if lru_only && cache != "lru" { continue; }
            if smooth_only {
                for l in 0..3 {
                    for pol in [true, false] {
                        for n in [3usize, 2, 1, 0] {
                            out.push(json!({"case": "bdd_prog", "order": order, "cache": cache, "ops": [["var", l, pol], ["smooth", 0, n]]}));
                        }
                    }
                }
                for (a, b2) in [(0, 2), (1, 2), (0, 1)] {
                    for opn in ["and", "or", "xor"] {
                        out.push(json!({"case": "bdd_prog", "order": order, "cache": cache,
                            "ops": [["var", a, true], ["var", b2, true], [opn, 0, 1], ["smooth", 2, 3], ["neg", 2], ["smooth", 4, 3]]}));
                    }
                }
                continue;
            }
            let mut prog: Vec<Value> = lits.clone();
            let base = prog.len();
            // all binary ops on literals
            for i in 0..base {
                for j in 0..base {
                    for opn in ["and", "or", "iff", "xor"] {
                        let mut p = prog.clone();
                        p.push(json!([opn, i, j]));
                        let k = p.len() - 1;
                        for l in 0..3 {
                            let mut q = p.clone();
                            q.push(json!(["cond", k, l, true]));
                            q.push(json!(["cond", k, l, false]));
                            q.push(json!(["exists", k, l]));
                            q.push(json!(["neg", k]));
                            q.push(json!(["cond", k + 4, l, true]));
                            q.push(json!(["compose", k, l, (i + 1) % base]));
                            q.push(json!(["semhash", k]));
                            q.push(json!([opn, i, j]));
                            q.push(json!(["var", l, true]));
                            out.push(json!({"case": "bdd_prog", "order": order, "cache": cache, "ops": q, "shape": shape, "only": only}));
                        }
                    }
                }
            }
            prog.clear();
        }
    }
    if function.contains("cond_model") || function.contains("condition_model") || function.contains("prop:C01") {
        // systematic: a binary operation on two literals, conditioned on every model over two of the three variables
        for order in ORDERS.iter() {
            for (i, j) in [(0usize, 4usize), (0, 2), (2, 4), (1, 4), (0, 5)] {
                for opn in ["and", "or", "xor"] {
                    for (a, b2) in [(0usize, 1usize), (1, 2), (0, 2), (2, 1)] {
                        for (pa, pb) in [(true, true), (true, false), (false, true), (false, false)] {
                            let mut q = lits.clone();
                            q.push(json!([opn, i, j]));
                            q.push(json!(["condmodel", 6, [[a, pa], [b2, pb]]]));
                            out.push(json!({"case": "bdd_prog", "order": order, "cache": "all", "ops": q, "shape": shape, "only": only}));
                        }
                    }
                }
            }
        }
    }
    if !smooth_only {
        for order in [vec![0u64], vec![0, 1], vec![1, 0], vec![0, 1, 2], vec![2, 0, 1], vec![1, 2, 0], vec![2, 1, 0]] {
            for pol in [true, false] { out.push(json!({"case": "bdd_newvar", "order": order, "pol": pol, "shape": shape, "only": only})); }
        }
    }
    // four variables, systematic: f = o1(o2(v0, v1), [neg] o3(v2, v3)), then every condition / exists; all 24 orders.
    // (some conditioning defects need a shared complemented node above the conditioned variable: no 3-variable witness)
    if !smooth_only {
        let perms4: Vec<Vec<u64>> = { let mut v = vec![]; for a in 0..4u64 { for b in 0..4u64 { for c in 0..4u64 { for d in 0..4u64 { let p = vec![a, b, c, d]; let mut q = p.clone(); q.sort(); q.dedup(); if q.len() == 4 { v.push(p); } } } } } v };
        for (pi, order) in perms4.iter().enumerate() {
            for o1 in ["and", "or", "xor"] { for o2 in ["and", "or"] { for o3 in ["and", "or", "xor"] { for ng in [false, true] {
                if (pi + o1.len() + o3.len()) % 3 != 0 && order != &vec![0, 1, 2, 3] { continue; }   // thin out the non-linear orders
                let cache = if lru_only || pi % 2 == 1 { "lru" } else { "all" };
                let mut q: Vec<Value> = (0..4).map(|l| json!(["var", l, true])).collect();
                q.push(json!([o2, 0, 1])); q.push(json!([o3, 2, 3]));
                let right = if ng { q.push(json!(["neg", 5])); 6 } else { 5 };
                q.push(json!([o1, 4, right]));
                let top = q.len() - 1;
                for l in 0..4 { q.push(json!(["cond", top, l, true])); q.push(json!(["cond", top, l, false])); q.push(json!(["exists", top, l])); }
                out.push(json!({"case": "bdd_prog", "order": order, "cache": cache, "ops": q, "shape": shape, "only": only}));
            } } } }
        }
    }
    // long lists for and_lst / or_lst: exactly one essential element at position k of a list of n (the others are the
    // neutral constant), n = 1..24, every k -- a dropped, duplicated or misplaced element changes the result
    if !smooth_only {
        for n in 1..=24usize {
            for k in 0..n {
                for (name, neutral) in [("andlst", 3), ("orlst", 4)] {
                    let l: Vec<Value> = (0..n).map(|i| if i == k { json!(0) } else { json!(neutral) }).collect();
                    let cache = if (n + k) % 2 == 0 && !lru_only { "all" } else { "lru" };
                    out.push(json!({"case": "bdd_prog", "order": ORDERS[(n + k) % 6], "cache": cache,
                        "ops": [["var", 0, true], ["var", 1, true], ["neg", 1], ["or", 1, 2], ["and", 1, 2], [name, l]], "shape": shape, "only": only}));
                }
            }
        }
    }
    // random programs over three and (every third) four variables
    let mut rng = Rng(seed.wrapping_add(12345));
    for t in 0..3000 {
        let nv = if t % 3 == 2 && !smooth_only { 4 } else { 3 };
        let order: Vec<u64> = if nv == 3 { ORDERS[rng.next(6)].to_vec() } else { let mut o: Vec<u64> = (0..4).collect(); for i in (1..4).rev() { let j = rng.next(i + 1); o.swap(i, j); } o };
        let cache = if rng.next(2) == 0 && !lru_only { "all" } else { "lru" };
        let mut ops: Vec<Value> = (0..nv).map(|l| json!(["var", l, true])).collect();
        let len = 4 + rng.next(10);
        for _ in 0..len {
            let n = ops.len();
            let op = match rng.next(if smooth_only { 12 } else { 11 }) {
                0 => json!(["neg", rng.next(n)]),
                1 => json!(["and", rng.next(n), rng.next(n)]),
                2 => json!(["or", rng.next(n), rng.next(n)]),
                3 => json!(["iff", rng.next(n), rng.next(n)]),
                4 => json!(["xor", rng.next(n), rng.next(n)]),
                5 | 6 => json!(["ite", rng.next(n), rng.next(n), rng.next(n)]),
                7 => json!(["cond", rng.next(n), rng.next(nv), rng.next(2) == 0]),
                8 => json!(["exists", rng.next(n), rng.next(nv)]),
                9 => json!(["compose", rng.next(n), rng.next(nv), rng.next(n)]),
                10 => match rng.next(5) {
                    0 => json!(["semhash", rng.next(n)]),
                    1 => { let k = rng.next(3); let pairs: Vec<Value> = (0..k).map(|_| json!([rng.next(nv), rng.next(2) == 0])).collect(); json!(["condmodel", rng.next(n), pairs]) }
                    2 => { let k = rng.next(4); let l: Vec<Value> = (0..k).map(|_| json!(rng.next(n))).collect(); json!([if rng.next(2) == 0 { "andlst" } else { "orlst" }, l]) }
                    _ => json!(["var", rng.next(nv), rng.next(2) == 0]),
                },
                _ => json!(["smooth", rng.next(n), rng.next(4)]),
            };
            ops.push(op);
        }
        out.push(json!({"case": "bdd_prog", "order": order, "cache": cache, "ops": ops, "shape": shape, "only": only}));
    }
    out
}
