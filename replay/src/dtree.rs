//! dtree / vtree cases on the REAL code: DTree::from_cnf must keep exactly the CNF's clauses as leaves, node variable
//! sets must be the union of the children's, cutsets = shared variables not cut above; the derived vtree must contain
//! every CNF variable exactly once
use crate::CaseResult;
use rsdd::repr::{Cnf, DTree, Literal, VTree, VarLabel, VarOrder, VarSet};
use rsdd::util::btree::BTree;
use serde_json::{json, Value};
use std::collections::BTreeSet;

fn set(v: &VarSet) -> BTreeSet<u64> { v.iter().map(|l| l.value()).collect() }

fn walk(t: &DTree, anc: &BTreeSet<u64>, leaves: &mut Vec<Vec<(u64, bool)>>) -> Result<BTreeSet<u64>, String> {
    match t {
        DTree::Leaf { clause, cutset, vars } => {
            let want: BTreeSet<u64> = clause.iter().map(|l| l.label().value()).collect();
            if set(vars) != want { return Err(format!("leaf vars {:?} != clause variables {:?}", set(vars), want)); }
            let wc: BTreeSet<u64> = want.difference(anc).cloned().collect();
            if set(cutset) != wc { return Err(format!("leaf cutset {:?}, expected {:?}", set(cutset), wc)); }
            leaves.push(clause.iter().map(|l| (l.label().value(), l.polarity())).collect());
            Ok(want)
        }
        DTree::Node { l, r, cutset, vars } => {
            // children's vars first (cutsets need the ancestor set including this node's cutset)
            let lv = match &**l { DTree::Leaf { vars, .. } | DTree::Node { vars, .. } => set(vars) };
            let rv = match &**r { DTree::Leaf { vars, .. } | DTree::Node { vars, .. } => set(vars) };
            let un: BTreeSet<u64> = lv.union(&rv).cloned().collect();
            if set(vars) != un { return Err(format!("node vars {:?} != union of children {:?}", set(vars), un)); }
            let wc: BTreeSet<u64> = lv.intersection(&rv).filter(|v| !anc.contains(v)).cloned().collect();
            if set(cutset) != wc { return Err(format!("node cutset {:?}, expected {:?}", set(cutset), wc)); }
            let na: BTreeSet<u64> = anc.union(&wc).cloned().collect();
            walk(l, &na, leaves)?;
            walk(r, &na, leaves)?;
            Ok(un)
        }
    }
}

fn vleaves(t: &VTree, out: &mut Vec<u64>) {
    match t { BTree::Leaf(v) => out.push(v.value()), BTree::Node(_, l, r) => { vleaves(l, out); vleaves(r, out); } }
}

pub fn run(c: &Value) -> CaseResult {
    let cls: Vec<Vec<Literal>> = c["cnf"].as_array().map(|cs| cs.iter().map(|cl| cl.as_array().map(|ls| ls.iter().map(|l| {
        let x = l.as_i64().unwrap_or(1);
        Literal::new(VarLabel::new((x.unsigned_abs() - 1) as u64), x > 0)
    }).collect()).unwrap_or_default()).collect()).unwrap_or_default();
    let order: Vec<VarLabel> = c["order"].as_array().map(|a| a.iter().map(|v| VarLabel::new(v.as_u64().unwrap_or(0))).collect()).unwrap_or_default();
    let cnf = Cnf::new(&cls);
    let d = DTree::from_cnf(&cnf, &VarOrder::new(&order));
    let mut leaves = vec![];
    walk(&d, &BTreeSet::new(), &mut leaves)?;
    let mut got: Vec<Vec<(u64, bool)>> = leaves; got.sort();
    let mut want: Vec<Vec<(u64, bool)>> = cnf.clauses().iter().map(|cl| cl.iter().map(|l| (l.label().value(), l.polarity())).collect()).collect(); want.sort();
    if got != want { return Err(format!("dtree leaves {:?} are not the CNF's clauses {:?}", got, want)); }
    if let Some(v) = VTree::from_dtree(&d) {
        let mut ls = vec![]; vleaves(&v, &mut ls); ls.sort();
        let mut vars: Vec<u64> = cnf.clauses().iter().flat_map(|cl| cl.iter().map(|l| l.label().value())).collect(); vars.sort(); vars.dedup();
        if ls != vars { return Err(format!("vtree leaves {:?}, CNF variables {:?}", ls, vars)); }
    }
    Ok(())
}

pub fn candidates(seed: u64) -> Vec<Value> {
    let mut out = vec![];
    let mut s = seed.wrapping_add(2718);
    let mut nx = |n: u64| { s = s.wrapping_mul(6364136223846793005).wrapping_add(1442695040888963407); (s >> 33) % n };
    out.push(json!({"case": "dtree_cnf", "cnf": [[1, -2], [2, 3], [3, 4]], "order": [0, 1, 2, 3]}));
    // independent components (the final composition in from_cnf) and labels that occur in no clause
    out.push(json!({"case": "dtree_cnf", "cnf": [[1, 3], [-2, 3], [-3, 4]], "order": [0, 1]}));
    for cnf in [json!([[1], [2]]), json!([[1, 2], [3, 4]]), json!([[1, 2], [3, 4], [5]]), json!([[1, -2], [2, 3], [5, 6], [-6, 7], [9]]), json!([[2], [4]])] {
        let mx = cnf.as_array().unwrap().iter().flat_map(|c| c.as_array().unwrap().iter().map(|l| l.as_i64().unwrap().unsigned_abs())).max().unwrap();
        let order: Vec<u64> = (0..mx).collect();
        out.push(json!({"case": "dtree_cnf", "cnf": cnf, "order": order}));
        let rev: Vec<u64> = (0..mx).rev().collect();
        out.push(json!({"case": "dtree_cnf", "cnf": cnf, "order": rev}));
    }
    for k in 0..700 {
        let nv = 2 + nx(5);
        let ncl = 1 + nx(6);
        let mut cnf: Vec<Vec<i64>> = (0..ncl).map(|_| (0..1 + nx(3)).map(|_| { let v = 1 + nx(nv) as i64; if nx(2) == 0 { v } else { -v } }).collect()).collect();
        // half of the cases: one clause over all variables (a connected formula); the others may fall into independent
        // components and may skip labels.  The elimination order always ranges over 0..=largest label.
        if k % 2 == 0 { cnf.push((1..=nv as i64).collect()); }
        let mx = cnf.iter().flat_map(|c| c.iter().map(|l| l.unsigned_abs())).max().unwrap_or(1);
        let mut order: Vec<u64> = (0..mx).collect();
        for i in (1..mx as usize).rev() { let j = nx(i as u64 + 1) as usize; order.swap(i, j); }
        out.push(json!({"case": "dtree_cnf", "cnf": cnf, "order": order.clone()}));
        // an elimination order over a proper prefix of the labels only: the subtrees left over at the end still share
        // the variables that were never eliminated
        if k % 3 == 0 && mx >= 2 {
            let keep = 1 + nx(mx - 1);
            let mut part: Vec<u64> = (0..keep).collect();
            for i in (1..keep as usize).rev() { let j = nx(i as u64 + 1) as usize; part.swap(i, j); }
            out.push(json!({"case": "dtree_cnf", "cnf": cnf, "order": part}));
        }
    }
    // cutsets of more than 64 variables: one or two clauses over 66-72 variables next to short ones
    for k in 0..4u64 {
        let w = 66 + 2 * k as i64;
        let wide: Vec<i64> = (1..=w).map(|v| if v % 2 == 0 { v } else { -v }).collect();
        let mut cnf = vec![wide.clone(), vec![1, -(w + 1)], vec![w + 1, w + 2]];
        if k % 2 == 1 { cnf.push(wide.iter().map(|l| -l).collect()); }
        let mx = (w + 2) as u64;
        let order: Vec<u64> = if k < 2 { (0..mx).collect() } else { (0..mx).rev().collect() };
        out.push(json!({"case": "dtree_cnf", "cnf": cnf, "order": order}));
    }
    // sibling clauses over the SAME w variables (every variable is cut at their parent, both children of it yield no vtree),
    // for every width 2..40, alone and under a node that cuts one more variable; with a separate component and a unit clause
    for w in 2..=40i64 {
        let a: Vec<i64> = (1..=w).collect();
        let b: Vec<i64> = (1..=w).map(|v| -v).collect();
        let order: Vec<u64> = if w % 2 == 0 { (0..w as u64).collect() } else { (0..w as u64).rev().collect() };
        out.push(json!({"case": "dtree_cnf", "cnf": [a.clone(), b.clone()], "order": order}));
        if w % 3 == 0 {
            let mut a2 = a.clone(); a2.push(w + 1);
            let cnf = vec![vec![w + 1, w + 2], a2, b.clone(), vec![w + 3, -(w + 4)], vec![w + 5]];
            let order: Vec<u64> = (0..(w + 5) as u64).collect();
            out.push(json!({"case": "dtree_cnf", "cnf": cnf, "order": order}));
        }
    }
    // labels beyond 64 (variable sets are bit sets)
    for _ in 0..30 {
        let pool: Vec<i64> = vec![1, 2, 3, 33, 63, 64, 65, 66, 70, 129, 130];
        let ncl = 2 + nx(5);
        let cnf: Vec<Vec<i64>> = (0..ncl).map(|_| (0..1 + nx(3)).map(|_| { let v = pool[nx(11) as usize]; if nx(2) == 0 { v } else { -v } }).collect()).collect();
        let mx = cnf.iter().flat_map(|c| c.iter().map(|l| l.unsigned_abs())).max().unwrap_or(1);
        let mut order: Vec<u64> = (0..mx).collect();
        for i in (1..mx as usize).rev() { let j = nx(i as u64 + 1) as usize; order.swap(i, j); }
        out.push(json!({"case": "dtree_cnf", "cnf": cnf, "order": order}));
    }
    out
}
