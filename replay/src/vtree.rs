//! VTreeManager cases on the REAL code: in-order indices of leaves and inner nodes, least common ancestors, the
//! prime/sub (left-of) relation and the variable count, against a direct walk of the tree shape.
//! Labels are dense (a permutation of 0..n); trees with unused labels are not judged.
use crate::CaseResult;
use rsdd::repr::{VTree, VTreeManager, VarLabel};
use rsdd::util::btree::BTree;
use serde_json::{json, Value};

fn vtree(v: &Value) -> VTree {
    match v.as_array() {
        Some(a) => VTree::new_node(Box::new(vtree(&a[0])), Box::new(vtree(&a[1]))),
        None => VTree::new_leaf(VarLabel::new(v.as_u64().unwrap_or(0))),
    }
}

/// in-order numbering of the JSON shape: returns (index of this node); fills `info[idx] = (leaf label | None, parent idx)`
fn number(v: &Value, next: &mut usize, info: &mut Vec<(Option<u64>, Option<usize>, Value)>) -> usize {
    match v.as_array() {
        None => { let i = *next; *next += 1; info.push((v.as_u64(), None, v.clone())); i }
        Some(a) => {
            let l = number(&a[0], next, info);
            let me = *next; *next += 1; info.push((None, None, v.clone()));
            let r = number(&a[1], next, info);
            info[l].1 = Some(me); info[r].1 = Some(me);
            me
        }
    }
}

fn same(t: &VTree, v: &Value) -> bool {
    match (t, v.as_array()) {
        (BTree::Leaf(l), None) => Some(l.value()) == v.as_u64(),
        (BTree::Node(_, l, r), Some(a)) => same(l, &a[0]) && same(r, &a[1]),
        _ => false,
    }
}

pub fn run(c: &Value) -> CaseResult {
    if c["case"] == "vtree_ctor" { return run_ctor(c); }
    let shape = &c["vtree"];
    let mut info = vec![]; let mut next = 0;
    number(shape, &mut next, &mut info);
    // in-order numbering visits indices in increasing order, so info[i] describes index i
    let n = info.len();
    let m = VTreeManager::new(vtree(shape));
    let leaves: Vec<(usize, u64)> = info.iter().enumerate().filter_map(|(i, x)| x.0.map(|l| (i, l))).collect();
    if m.num_vars() != leaves.len() { return Err(format!("num_vars = {}, the tree has {} leaves", m.num_vars(), leaves.len())); }
    for (i, l) in leaves.iter() {
        let got = m.var_index(VarLabel::new(*l)).value();
        if got != *i { return Err(format!("var_index({l}) = {got}, the leaf is at in-order index {i}")); }
    }
    let anc = |mut i: usize| -> Vec<usize> { let mut v = vec![i]; while let Some(p) = info[i].1 { v.push(p); i = p; } v };
    for i in 0..n {
        let ti = m.vtree(m.var_index(VarLabel::new(leaves[0].1)));   // exercise vtree() on a leaf index first
        if !ti.is_leaf() { return Err("vtree(var_index(l)) is not a leaf".into()); }
        for j in 0..n {
            let (ai, aj) = (anc(i), anc(j));
            let want = *ai.iter().find(|x| aj.contains(x)).unwrap();
            // indices are handed out by the manager itself: reach index i through lca of two leaves or a leaf index
            let (li, lj) = (idx_of(&m, &info, i), idx_of(&m, &info, j));
            let got = m.lca(li, lj).value();
            if got != want { return Err(format!("lca({i},{j}) = {got}, the least common ancestor is at in-order index {want}")); }
            if m.is_prime_index(li, lj) != (i < j) { return Err(format!("is_prime_index({i},{j}) wrong")); }
        }
        if !same(m.vtree(idx_of(&m, &info, i)), &info[i].2) { return Err(format!("vtree({i}) is not the subtree at in-order index {i}")); }
    }
    for (i, a) in leaves.iter() {
        for (j, b) in leaves.iter() {
            if m.is_prime_var(VarLabel::new(*a), VarLabel::new(*b)) != (i < j) { return Err(format!("is_prime_var({a},{b}) disagrees with left-of in the tree")); }
        }
    }
    Ok(())
}

/// a VTreeIndex for in-order index i, obtained from the manager: a leaf's own index, or the lca of the leftmost and
/// rightmost leaf below an inner node
fn idx_of(m: &VTreeManager, info: &Vec<(Option<u64>, Option<usize>, Value)>, i: usize) -> rsdd::repr::VTreeIndex {
    fn first(v: &Value) -> u64 { match v.as_array() { Some(a) => first(&a[0]), None => v.as_u64().unwrap_or(0) } }
    fn last(v: &Value) -> u64 { match v.as_array() { Some(a) => last(&a[1]), None => v.as_u64().unwrap_or(0) } }
    match info[i].0 {
        Some(l) => m.var_index(VarLabel::new(l)),
        None => m.lca(m.var_index(VarLabel::new(first(&info[i].2))), m.var_index(VarLabel::new(last(&info[i].2)))),
    }
}

fn shapes(labels: &[u64]) -> Vec<Value> {
    if labels.len() == 1 { return vec![json!(labels[0])]; }
    let mut out = vec![];
    for k in 1..labels.len() {
        for l in shapes(&labels[..k]) { for r in shapes(&labels[k..]) { out.push(json!([l, r])); } }
    }
    out
}
fn perms(n: usize) -> Vec<Vec<u64>> {
    if n == 0 { return vec![vec![]]; }
    let mut out = vec![];
    for p in perms(n - 1) { for i in 0..=p.len() { let mut q = p.clone(); q.insert(i, (n - 1) as u64); out.push(q); } }
    out
}

/// the order-based constructors: the leaves of the vtree, left to right, are the order they were given (every variable exactly once)
fn run_ctor(c: &Value) -> CaseResult {
    let order: Vec<VarLabel> = c["order"].as_array().map(|a| a.iter().map(|v| VarLabel::new(v.as_u64().unwrap_or(0))).collect()).unwrap_or_default();
    fn leaves(t: &VTree, out: &mut Vec<u64>) { match t { BTree::Leaf(v) => out.push(v.value()), BTree::Node(_, l, r) => { leaves(l, out); leaves(r, out); } } }
    let want: Vec<u64> = order.iter().map(|v| v.value()).collect();
    let mut builds: Vec<(String, VTree)> = vec![("right_linear".into(), VTree::right_linear(&order)), ("left_linear".into(), VTree::left_linear(&order))];
    let mut s = 0usize;
    while (1usize << s) <= order.len() { builds.push((format!("even_split({s})"), VTree::even_split(&order, s))); s += 1; }
    for (name, t) in builds.iter() {
        let mut got = vec![]; leaves(t, &mut got);
        if got != want { return Err(format!("VTree::{name} on the order {:?} has the leaves {:?}", want, got)); }
    }
    Ok(())
}

pub fn candidates(seed: u64) -> Vec<Value> {
    let mut out = vec![];
    // order-based constructors: every permutation of 0..n for n <= 4, sparse label sets, some longer shuffled orders
    for n in 1..=4 { for p in perms(n) { out.push(json!({"case": "vtree_ctor", "order": p})); } }
    for p in perms(3) { let q: Vec<u64> = p.iter().map(|x| 3 + 2 * x).collect(); out.push(json!({"case": "vtree_ctor", "order": q})); }
    out.push(json!({"case": "vtree_ctor", "order": [11, 3, 5, 7, 9, 70, 64, 0, 2]}));
    out.push(json!({"case": "vtree_ctor", "order": [5, 4, 3, 2, 1, 0, 6, 7, 9, 8, 15, 14, 13, 12, 11, 10, 16]}));
    // every shape x every labelling for 1..4 leaves; every shape with 3 seeded labellings for 5 and 6 leaves
    for n in 1..=4 { for p in perms(n) { for s in shapes(&p) { out.push(json!({"case": "vtree_mgr", "vtree": s})); } } }
    let mut s = seed.wrapping_add(777);
    let mut nx = |n: u64| { s = s.wrapping_mul(6364136223846793005).wrapping_add(1442695040888963407); (s >> 33) % n };
    for n in 5..=6u64 {
        for _ in 0..3 {
            let mut p: Vec<u64> = (0..n).collect();
            for i in (1..n as usize).rev() { let j = nx(i as u64 + 1) as usize; p.swap(i, j); }
            for sh in shapes(&p) { out.push(json!({"case": "vtree_mgr", "vtree": sh})); }
        }
    }
    // larger trees (20-70 leaves, random shape and labelling), all pairs of indices
    fn rand_shape(labels: &[u64], nx: &mut dyn FnMut(u64) -> u64) -> Value {
        if labels.len() == 1 { return json!(labels[0]); }
        let k = 1 + nx(labels.len() as u64 - 1) as usize;
        json!([rand_shape(&labels[..k], nx), rand_shape(&labels[k..], nx)])
    }
    for n in [20u64, 33, 64, 65, 70] {
        let mut p: Vec<u64> = (0..n).collect();
        for i in (1..n as usize).rev() { let j = nx(i as u64 + 1) as usize; p.swap(i, j); }
        out.push(json!({"case": "vtree_mgr", "vtree": rand_shape(&p, &mut nx)}));
    }
    out
}
