//! decision-DNNF cases: compile a CNF top-down with the REAL StandardDecisionNNFBuilder, optionally negate
//! the result, condition it on (label, value) and compare truth tables.
use crate::CaseResult;
use rsdd::builder::decision_nnf::{DecisionNNFBuilder, SemanticDecisionNNFBuilder, StandardDecisionNNFBuilder};
use rsdd::constants::primes;
use rsdd::builder::TopDownBuilder;
use rsdd::repr::{BddPtr, Cnf, DDNNFPtr, Literal, VarLabel, VarOrder};
use serde_json::{json, Value};

fn eval(p: BddPtr, a: &[bool]) -> bool {
    match p {
        BddPtr::PtrTrue => true,
        BddPtr::PtrFalse => false,
        BddPtr::Reg(n) => if a[n.var.value() as usize] { eval(n.high, a) } else { eval(n.low, a) },
        BddPtr::Compl(n) => !eval(BddPtr::Reg(n), a),
    }
}

/// no path decides a variable twice
fn decides_once(p: BddPtr, seen: &mut Vec<u64>) -> Result<(), String> {
    match p {
        BddPtr::Reg(n) | BddPtr::Compl(n) => {
            if seen.contains(&n.var.value()) { return Err(format!("a path decides variable {} twice", n.var.value())); }
            seen.push(n.var.value());
            decides_once(n.low, seen)?;
            decides_once(n.high, seen)?;
            seen.pop();
            Ok(())
        }
        _ => Ok(()),
    }
}

fn run_on<'a, B: DecisionNNFBuilder<'a> + TopDownBuilder<'a, BddPtr<'a>>>(which: &str, b: &'a B, c: &Value, clauses: &[Vec<Literal>], nv: usize) -> CaseResult {
    let cnf = Cnf::new(clauses);
    let d = b.compile_cnf_topdown(&cnf);
    let nm = 1usize << nv;
    let asg = |m: usize| -> Vec<bool> { (0..nv).map(|i| (m >> i) & 1 == 1).collect() };
    // the compiled diagram must have exactly the CNF's models
    let mut sat = false;
    for m in 0..nm {
        let a = asg(m);
        let want = clauses.iter().all(|cl| cl.iter().any(|l| a[l.label().value() as usize] == l.polarity()));
        sat |= want;
        if eval(d, &a) != want {
            return Err(format!("{which} compile_cnf_topdown: diagram is {} on {:?}, the CNF is {}", eval(d, &a), a, want));
        }
    }
    if d.is_false() != !sat { return Err(format!("{which} compile_cnf_topdown: the CNF is {}satisfiable but the result is{} the false constant", if sat { "" } else { "un" }, if d.is_false() { "" } else { " not" })); }
    decides_once(d, &mut vec![]).map_err(|e| format!("{which} compile_cnf_topdown: {e}"))?;
    let p = if c["neg"].as_bool().unwrap_or(false) { d.neg() } else { d };
    let (l, v) = (c["lbl"].as_u64().unwrap_or(0) as usize, c["val"].as_bool().unwrap_or(true));
    let r = b.condition(p, VarLabel::new(l as u64), v);
    for m in 0..nm {
        let m2 = if v { m | (1 << l) } else { m & !(1 << l) };
        if eval(r, &asg(m)) != eval(p, &asg(m2)) {
            return Err(format!(
                "{which} condition({}diagram, x{l}={v}) is {} on {:?}; the restricted function is {}",
                if c["neg"].as_bool().unwrap_or(false) { "negated " } else { "" }, eval(r, &asg(m)), asg(m), eval(p, &asg(m2))));
        }
    }
    Ok(())
}

/// a large formula (tens of variables, ~10^5 cache states): exhaustive evaluation is impossible, so sampled -- walk from the
/// root towards the true leaf under random completions; every accepted assignment must satisfy the CNF, no path may decide
/// a variable twice, and random assignments must be classified as the CNF classifies them
fn run_large(c: &Value) -> CaseResult {
    let nv = c["nvars"].as_u64().unwrap_or(36) as usize;
    let ncl = c["nclauses"].as_u64().unwrap_or(60) as usize;
    let mut s = c["seed"].as_u64().unwrap_or(1).wrapping_mul(0x9E3779B97F4A7C15) | 1;
    let mut nx = |n: u64| { s ^= s << 13; s ^= s >> 7; s ^= s << 17; (s >> 11) % n };
    let mut clauses: Vec<Vec<Literal>> = vec![];
    while clauses.len() < ncl {
        let (a, b, d) = (nx(nv as u64), nx(nv as u64), nx(nv as u64));
        if a == b || b == d || a == d { continue; }
        clauses.push([a, b, d].iter().map(|v| Literal::new(VarLabel::new(*v), nx(2) == 1)).collect());
    }
    let cnf = Cnf::new(&clauses);
    if cnf.num_vars() != nv { return Ok(()); }
    let b = StandardDecisionNNFBuilder::new(VarOrder::linear_order(nv));
    let d = b.compile_cnf_topdown(&cnf);
    let holds = |a: &Vec<bool>| clauses.iter().all(|cl| cl.iter().any(|l| a[l.label().value() as usize] == l.polarity()));
    for _ in 0..20000 {
        let mut a: Vec<bool> = (0..nv).map(|_| nx(2) == 1).collect();
        // plain evaluation must agree with the CNF
        if eval(d, &a) != holds(&a) { return Err(format!("large formula (seed {}): diagram is {} on a random assignment, the CNF is {}", c["seed"], eval(d, &a), holds(&a))); }
        // guided walk to a true leaf
        let mut seen = vec![false; nv];
        let mut p = d;
        let mut neg = false;
        loop {
            match p {
                BddPtr::PtrTrue | BddPtr::PtrFalse => break,
                BddPtr::Reg(n) | BddPtr::Compl(n) => {
                    if let BddPtr::Compl(_) = p { neg = !neg; }
                    let v = n.var.value() as usize;
                    if seen[v] { return Err(format!("large formula (seed {}): a path decides variable {v} twice", c["seed"])); }
                    seen[v] = true;
                    let is_f = |q: BddPtr| matches!(q, BddPtr::PtrFalse) != neg && matches!(q, BddPtr::PtrFalse | BddPtr::PtrTrue);
                    let go_high = if is_f(n.low) { true } else if is_f(n.high) { false } else { a[v] };
                    a[v] = go_high;
                    p = if go_high { n.high } else { n.low };
                }
            }
        }
        if eval(d, &a) && !holds(&a) { return Err(format!("large formula (seed {}): the diagram accepts an assignment that falsifies the CNF", c["seed"])); }
    }
    Ok(())
}

/// many formulas compiled one after the other in ONE builder (per node store), each conditioned -- the diagram and its
/// negation -- on every literal: later requests meet nodes stored by earlier ones
fn run_batch_on<'a, B: DecisionNNFBuilder<'a> + TopDownBuilder<'a, BddPtr<'a>>>(which: &str, b: &'a B, c: &Value, nv: usize) -> CaseResult {
    let nm = 1usize << nv;
    let asg = |m: usize| -> Vec<bool> { (0..nv).map(|i| (m >> i) & 1 == 1).collect() };
    for (k, f) in c["cnfs"].as_array().cloned().unwrap_or_default().iter().enumerate() {
        let clauses: Vec<Vec<Literal>> = f.as_array().map(|cs| cs.iter().map(|cl| cl.as_array().map(|ls| ls.iter().map(|l| {
            let x = l.as_i64().unwrap_or(1);
            Literal::new(VarLabel::new((x.unsigned_abs() - 1) as u64), x > 0)
        }).collect()).unwrap_or_default()).collect()).unwrap_or_default();
        let cnf = Cnf::new(&clauses);
        if cnf.num_vars() != nv { continue; }
        let d = b.compile_cnf_topdown(&cnf);
        let want: Vec<bool> = (0..nm).map(|m| { let a = asg(m); clauses.iter().all(|cl| cl.iter().any(|l| a[l.label().value() as usize] == l.polarity())) }).collect();
        for m in 0..nm { if eval(d, &asg(m)) != want[m] { return Err(format!("{which} formula {k} of the batch {f}: diagram is {} on {:?}, the CNF is {}", eval(d, &asg(m)), asg(m), want[m])); } }
        if d.is_false() != !want.iter().any(|x| *x) { return Err(format!("{which} formula {k} of the batch {f}: false constant <=> unsatisfiable fails")); }
        decides_once(d, &mut vec![]).map_err(|e| format!("{which} formula {k} of the batch {f}: {e}"))?;
        for neg in [false, true] {
            let p = if neg { d.neg() } else { d };
            for l in 0..nv { for v in [true, false] {
                let r = b.condition(p, VarLabel::new(l as u64), v);
                for m in 0..nm {
                    let m2 = if v { m | (1 << l) } else { m & !(1 << l) };
                    if eval(r, &asg(m)) != (want[m2] != neg) {
                        return Err(format!("{which} formula {k} of the batch {f}: condition({}diagram, x{l}={v}) is {} on {:?}; the restricted function is {}", if neg { "negated " } else { "" }, eval(r, &asg(m)), asg(m), want[m2] != neg));
                    }
                }
            } }
        }
    }
    Ok(())
}
fn run_batch(c: &Value) -> CaseResult {
    let order: Vec<VarLabel> = c["order"].as_array().map(|a| a.iter().map(|v| VarLabel::new(v.as_u64().unwrap_or(0))).collect()).unwrap_or_default();
    let nv = order.len();
    let b = StandardDecisionNNFBuilder::new(VarOrder::new(&order));
    run_batch_on("standard store:", &b, c, nv)?;
    let b2 = SemanticDecisionNNFBuilder::<{ primes::U64_LARGEST }>::new(VarOrder::new(&order));
    // (only the 64-bit prime: with a 32-bit prime two of the few hundred functions of a batch collide with probability ~1e-4,
    // and a collision -- the documented limit of hash-identified stores, C11 -- would be reported as a wrong diagram)
    run_batch_on("semantic store:", &b2, c, nv)
}

pub fn run(c: &Value) -> CaseResult {
    if c["case"].as_str() == Some("dnnf_large") { return run_large(c); }
    if c["case"].as_str() == Some("dnnf_batch") { return run_batch(c); }
    let nv = c["nvars"].as_u64().unwrap_or(3) as usize;
    let clauses: Vec<Vec<Literal>> = c["cnf"].as_array().map(|cs| cs.iter().map(|cl| cl.as_array().map(|ls| ls.iter().map(|l| {
        let x = l.as_i64().unwrap_or(1);
        Literal::new(VarLabel::new((x.unsigned_abs() - 1) as u64), x > 0)
    }).collect()).unwrap_or_default()).collect()).unwrap_or_default();
    let order: Vec<VarLabel> = c["order"].as_array().map(|a| a.iter().map(|v| VarLabel::new(v.as_u64().unwrap_or(0))).collect()).unwrap_or_default();
    let b = StandardDecisionNNFBuilder::new(VarOrder::new(&order));
    run_on("standard store:", &b, c, &clauses, nv)?;
    let b2 = SemanticDecisionNNFBuilder::<{ primes::U64_LARGEST }>::new(VarOrder::new(&order));
    run_on("semantic store:", &b2, c, &clauses, nv)
}

pub fn candidates(seed: u64) -> Vec<Value> {
    let mut out = vec![];
    let cnfs: Vec<Value> = vec![
        json!([[1, 2], [-2, 3]]), json!([[1, 2, 3]]), json!([[1, -2], [2, -3], [3, -1]]), json!([[1], [2, 3]]),
        json!([[-1, -2], [1, 2], [3, 1]]), json!([[1, 2], [1, 3], [2, 3]]),
        // unsatisfiable formulas (by propagation, by search), an empty clause, tautological and repeated literals
        json!([[1], [-1], [2, 3]]), json!([[1, 2], [1, -2], [-1, 3], [-1, -3]]), json!([[], [1, 2, 3]]), json!([[1, -1], [2, 3, 3]]),
        json!([[-1, 3], [2, 3], [-3, 1]]),
        // unsatisfiable only by search while unit clauses imply literals at the start
        json!([[1], [2, 3], [2, -3], [-2, 3], [-2, -3]]), json!([[-3], [1, 2], [1, -2], [-1, 2], [-1, -2]]),
    ];
    let orders = [[0, 1, 2], [0, 2, 1], [1, 0, 2], [1, 2, 0], [2, 0, 1], [2, 1, 0]];
    for cnf in cnfs.iter() {
        // the decision order must range over exactly the CNF's variables (the property's domain)
        let nv = cnf.as_array().unwrap().iter().flat_map(|c| c.as_array().unwrap().iter().map(|l| l.as_i64().unwrap().unsigned_abs())).max().unwrap_or(1);
        if nv != 3 { continue; }
        for order in orders.iter() {
            for neg in [false, true] {
                for l in 0..3 {
                    for v in [true, false] {
                        out.push(json!({"case": "dnnf_cond", "nvars": 3, "cnf": cnf, "order": order, "neg": neg, "lbl": l, "val": v}));
                    }
                }
            }
        }
    }
    // random 3-CNFs over 4 variables
    let mut s = seed.wrapping_add(777);
    let mut nx = |n: u64| { s = s.wrapping_mul(6364136223846793005).wrapping_add(1442695040888963407); (s >> 33) % n };
    for _ in 0..400 {
        let ncl = 1 + nx(5);
        let mut cnf = vec![];
        for _ in 0..ncl {
            let len = 1 + nx(3);
            let cl: Vec<i64> = (0..len).map(|_| { let v = 1 + nx(4) as i64; if nx(2) == 0 { v } else { -v } }).collect();
            cnf.push(cl);
        }
        if nx(3) == 0 { let v = 1 + nx(4) as i64; cnf.push(vec![if nx(2) == 0 { v } else { -v }]); }
        let mut order: Vec<u64> = vec![0, 1, 2, 3];
        for i in (1..4).rev() { let j = nx(i as u64 + 1) as usize; order.swap(i, j); }
        if cnf.iter().flat_map(|c| c.iter().map(|l| l.unsigned_abs())).max().unwrap_or(0) != 4 { continue; }
        out.push(json!({"case": "dnnf_cond", "nvars": 4, "cnf": cnf, "order": order, "neg": nx(2) == 0, "lbl": nx(4), "val": nx(2) == 0}));
    }
    // larger formulas: 5-6 variables, 3-9 clauses of 1-3 literals (component caching and propagation chains get exercised)
    for _ in 0..250 {
        let nv = 5 + nx(2);
        let ncl = 3 + nx(7);
        let mut cnf = vec![];
        for _ in 0..ncl {
            let len = 1 + nx(3);
            let cl: Vec<i64> = (0..len).map(|_| { let v = 1 + nx(nv) as i64; if nx(2) == 0 { v } else { -v } }).collect();
            cnf.push(cl);
        }
        if cnf.iter().flat_map(|c| c.iter().map(|l| l.unsigned_abs())).max().unwrap_or(0) != nv { continue; }
        let mut order: Vec<u64> = (0..nv).collect();
        for i in (1..nv as usize).rev() { let j = nx(i as u64 + 1) as usize; order.swap(i, j); }
        out.push(json!({"case": "dnnf_cond", "nvars": nv, "cnf": cnf, "order": order, "neg": nx(2) == 0, "lbl": nx(nv), "val": nx(2) == 0}));
    }
    // batches: 60 formulas over 3-5 variables compiled and conditioned in one builder per node store
    for _ in 0..40 {
        let nv = 3 + nx(3);
        let mut order: Vec<u64> = (0..nv).collect();
        for i in (1..nv as usize).rev() { let j = nx(i as u64 + 1) as usize; order.swap(i, j); }
        let cnfs: Vec<Vec<Vec<i64>>> = (0..60).map(|_| {
            let mut f: Vec<Vec<i64>> = (0..1 + nx(6)).map(|_| (0..1 + nx(3)).map(|_| { let v = 1 + nx(nv) as i64; if nx(2) == 0 { v } else { -v } }).collect()).collect();
            f.push(vec![nv as i64, if nx(2) == 0 { 1 } else { -1 }]);
            f
        }).collect();
        out.push(json!({"case": "dnnf_batch", "order": order, "cnfs": cnfs}));
    }
    // two large random 3-CNFs (40 variables, 70 clauses: ~10^5 component-cache states), checked by sampling
    out.push(json!({"case": "dnnf_large", "nvars": 40, "nclauses": 70, "seed": 1}));
    out.push(json!({"case": "dnnf_large", "nvars": 40, "nclauses": 70, "seed": seed.wrapping_add(2)}));
    // more than 64 variables (sparse: few clauses, so most variables are free) and more than 64 clauses over few variables
    out.push(json!({"case": "dnnf_large", "nvars": 72, "nclauses": 16, "seed": seed.wrapping_add(3)}));
    out.push(json!({"case": "dnnf_large", "nvars": 12, "nclauses": 70, "seed": seed.wrapping_add(4)}));
    // clauses of four literals on distinct variables, 6 variables, random orders: one decision can falsify two literals
    // of a clause that stays open, which is where the residual hash and the watch lists are exercised hardest
    for _ in 0..400 {
        let nv = 6u64;
        let ncl = 2 + nx(4);
        let mut cnf = vec![];
        for _ in 0..ncl {
            let mut vs: Vec<i64> = vec![];
            while vs.len() < 4 { let v = 1 + nx(nv) as i64; if !vs.contains(&v) { vs.push(v); } }
            cnf.push(vs.into_iter().map(|v| if nx(2) == 0 { v } else { -v }).collect::<Vec<i64>>());
        }
        if cnf.iter().flat_map(|c| c.iter().map(|l| l.unsigned_abs())).max().unwrap_or(0) != nv { continue; }
        let mut order: Vec<u64> = (0..nv).collect();
        for i in (1..nv as usize).rev() { let j = nx(i as u64 + 1) as usize; order.swap(i, j); }
        out.push(json!({"case": "dnnf_cond", "nvars": nv, "cnf": cnf, "order": order, "neg": nx(2) == 0, "lbl": nx(nv), "val": nx(2) == 0}));
    }
    out
}
