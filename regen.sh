#!/bin/sh
# regenerates evidence/*.json for every registered property on the CURRENT (unchanged) tree; run before committing
cd "$(dirname "$0")"
if ! git -C /repo diff --quiet; then echo "/repo has uncommitted changes: refusing to write evidence"; exit 3; fi
tier=${1:-thorough}
rc=0
for p in $(python3 -c "import json; print(' '.join(c['property_id'] for c in json.load(open('MANIFEST.json'))['checks']))"); do
  out=$(./check $p --tier $tier); st=$?
  echo "$out" | tail -1
  [ $st -eq 0 ] || { echo "regen: check $p exited $st"; rc=1; }
done
python3-vt - <<'PY'
import json, jsonschema, glob
sch = json.load(open('/root/.vp/EVIDENCE.schema.json'))
for f in sorted(glob.glob('/verif/evidence/C*.json')):
    d = json.load(open(f))
    jsonschema.validate(d, sch)
    c = d['coverage']
    assert c['obligations'] == c['discharged'] and d['violations'] == 0, f
print('evidence valid:', len(glob.glob('/verif/evidence/C*.json')), 'files')
PY
exit $rc
