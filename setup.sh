#!/bin/sh
# MANIFEST.setup_cmd: offline; warms the verus start-up cache and pre-builds the kani / replay crates if present
cd "$(dirname "$0")"
mkdir -p build evidence
export CARGO_NET_OFFLINE=true
printf 'use vstd::prelude::*;\nverus!{ proof fn warm() ensures 1 + 1 == 2int {} }\nfn main(){}\n' > build/warm.rs
(cd build && verus warm.rs >/dev/null 2>&1 || true)
exit 0
