#!/bin/sh
# MANIFEST.setup_cmd: offline; warms the verus start-up cache and pre-builds the kani / replay crates
cd "$(dirname "$0")"
mkdir -p build evidence build/replay
export CARGO_NET_OFFLINE=true
printf 'use vstd::prelude::*;\nverus!{ proof fn warm() ensures 1 + 1 == 2int {} }\nfn main(){}\n' > build/warm.rs
(cd build && verus warm.rs >/dev/null 2>&1 || true)
# replay crate (real rsdd code, hooks on)
(cd replay && RUSTFLAGS='--cfg rsdd_verif' CARGO_TARGET_DIR=../build/replay-target cargo build --release --offline >/dev/null 2>&1 || echo "setup: replay crate build failed (checks rebuild it on demand)")
# kani crate: compile the harnesses once (verification happens in the checks)
mkdir -p build/kani-gen; python3 -c "import sys; sys.path.insert(0,'.'); from vfw import kani_run; kani_run.gen_inputs('/repo','build')"
(cd kani && VERIF_KANI_GEN=$(pwd)/../build/kani-gen CARGO_TARGET_DIR=../build/kani-target timeout 900 cargo kani --only-codegen -Z function-contracts -Z stubbing >/dev/null 2>&1 || true)
exit 0
