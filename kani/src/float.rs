use rsdd::util::semirings::{BBRing, BBSemiring, ExpectedUtility, JoinSemilattice, MeetSemilattice, RealSemiring};

fn any_real() -> RealSemiring {
    let x: f64 = kani::any();
    kani::assume(!x.is_nan());
    RealSemiring(x)
}

/// join / meet / choose of the real semiring over ALL non-NaN f64 (infinities and signed zeros included)
#[kani::proof]
fn k_real_lattice() {
    let (a, b, c) = (any_real(), any_real(), any_real());
    kani::cover!(a.0 < b.0 && b.0 < c.0);
    kani::cover!(a.0 == f64::INFINITY);
    // idempotent, commutative, associative (== on f64: -0.0 == 0.0)
    assert!(a.join(&a) == a && a.meet(&a) == a);
    assert!(a.join(&b) == b.join(&a));
    assert!(a.meet(&b) == b.meet(&a));
    assert!(a.join(&b).join(&c) == a.join(&b.join(&c)));
    assert!(a.meet(&b).meet(&c) == a.meet(&b.meet(&c)));
    // whenever the declared order relates two elements, join/choose give the larger, meet the smaller
    if a <= b {
        assert!(a.join(&b) == b);
        assert!(a.meet(&b) == a);
        assert!(BBSemiring::choose(&a, &b) == b && BBSemiring::choose(&b, &a) == b);
        assert!(BBRing::choose(&a, &b) == b && BBRing::choose(&b, &a) == b);
    }
    // absorption
    assert!(a.join(&a.meet(&b)) == a && a.meet(&a.join(&b)) == a);
}

fn any_eu() -> ExpectedUtility {
    let (x, y): (f64, f64) = (kani::any(), kani::any());
    kani::assume(!x.is_nan() && !y.is_nan());
    ExpectedUtility(x, y)
}

/// join / meet / choose of the expected-utility semiring over all non-NaN pairs
#[kani::proof]
fn k_eu_lattice() {
    let (a, b, c) = (any_eu(), any_eu(), any_eu());
    kani::cover!(a < b);
    kani::cover!(a.partial_cmp(&b).is_none());
    assert!(a.join(&a) == a && a.meet(&a) == a);
    assert!(a.join(&b) == b.join(&a));
    assert!(a.meet(&b) == b.meet(&a));
    assert!(a.join(&b).join(&c) == a.join(&b.join(&c)));
    assert!(a.meet(&b).meet(&c) == a.meet(&b.meet(&c)));
    if a < b || a == b {
        assert!(a.join(&b) == b);
        assert!(a.meet(&b) == a);
        assert!(BBSemiring::choose(&a, &b) == b && BBSemiring::choose(&b, &a) == b);
        assert!(BBRing::choose(&a, &b) == b && BBRing::choose(&b, &a) == b);
    }
    // the declared order is a partial order on non-NaN pairs
    assert!(a.partial_cmp(&a) == Some(core::cmp::Ordering::Equal));
    if a < b { assert!(b > a); assert!(!(b < a)); }
    if a < b && b < c { assert!(a < c); }
}

fn small_int() -> f64 {
    let i: i8 = kani::any();
    kani::assume(-8 <= i && i <= 8);
    i as f64
}

/// `+` laws of the real semiring on exactly representable values (integers |x| <= 8)
#[kani::proof]
fn k_real_add_small_int() {
    let (a, b, c) = (RealSemiring(small_int()), RealSemiring(small_int()), RealSemiring(small_int()));
    kani::cover!(a.0 == 8.0 && b.0 == -8.0);
    use rsdd::util::semirings::Semiring;
    let (one, zero) = (RealSemiring::one(), RealSemiring::zero());
    assert!((a + b) + c == a + (b + c));
    assert!(a + b == b + a);
    assert!(a + zero == a && zero + a == a);
    assert!(a * one == a && one * a == a);
    assert!(a * zero == zero && zero * a == zero);
    assert!((a - b) + b == a);
}

/// `*` laws of the real semiring on exactly representable values (integers |x| <= 8)
#[kani::proof]
fn k_real_mul_small_int() {
    let (a, b, c) = (RealSemiring(small_int()), RealSemiring(small_int()), RealSemiring(small_int()));
    assert!(a * b == b * a);
    assert!((a * b) * c == a * (b * c));
    assert!(a * (b + c) == (a * b) + (a * c));
}

fn tiny_int() -> f64 {
    let i: i8 = kani::any();
    kani::assume(-4 <= i && i <= 4);
    i as f64
}

/// semiring laws of the expected-utility type on exactly representable values (integers |x| <= 4): domain-bounded
#[kani::proof]
fn k_eu_semiring_small_int() {
    use rsdd::util::semirings::Semiring;
    let (a, b, c) = (ExpectedUtility(tiny_int(), tiny_int()), ExpectedUtility(tiny_int(), tiny_int()), ExpectedUtility(tiny_int(), tiny_int()));
    let (one, zero) = (ExpectedUtility::one(), ExpectedUtility::zero());
    assert!((a + b) + c == a + (b + c));
    assert!(a + b == b + a);
    assert!(a + zero == a && zero + a == a);
    assert!(a * one == a && one * a == a);
    assert!(a * zero == zero && zero * a == zero);
    assert!(a * b == b * a);
    assert!((a - b) + b == a);
}

#[kani::proof]
fn k_eu_mulassoc_small_int() {
    let (a, b, c) = (ExpectedUtility(tiny_int(), tiny_int()), ExpectedUtility(tiny_int(), tiny_int()), ExpectedUtility(tiny_int(), tiny_int()));
    assert!((a * b) * c == a * (b * c));
    assert!(a * (b + c) == (a * b) + (a * c));
}

/// semiring laws of the complex type on exactly representable values (integers |x| <= 4): domain-bounded
#[kani::proof]
fn k_complex_small_int() {
    use rsdd::util::semirings::{Complex, Semiring};
    let mk = || Complex { re: tiny_int(), im: tiny_int() };
    let (a, b, c) = (mk(), mk(), mk());
    let (one, zero) = (Complex::one(), Complex::zero());
    assert!((a + b) + c == a + (b + c));
    assert!(a + b == b + a);
    assert!(a + zero == a && a * one == a && a * zero == zero);
    assert!(a * b == b * a);
    assert!((a - b) + b == a);
}

#[kani::proof]
fn k_complex_mulassoc_small_int() {
    use rsdd::util::semirings::Complex;
    let mk = || Complex { re: tiny_int(), im: tiny_int() };
    let (a, b, c) = (mk(), mk(), mk());
    assert!((a * b) * c == a * (b * c));
    assert!(a * (b + c) == (a * b) + (a * c));
}

fn finite() -> f64 {
    let x: f64 = kani::any();
    kani::assume(x.is_finite());
    x
}

/// identities, annihilation and commutativity of the complex type over ALL finite floats (not only small integers):
/// these laws involve no rounding in the shipped formulas, so they hold exactly on the whole domain
#[kani::proof]
fn k_complex_identities_all_finite() {
    use rsdd::util::semirings::{Complex, Semiring};
    let a = Complex { re: finite(), im: finite() };
    let (one, zero) = (Complex::one(), Complex::zero());
    kani::cover!(a.re > 9007199254740992.0 && a.im == 1.0);
    assert!(a + zero == a && zero + a == a);
    assert!(a * one == a && one * a == a);
    assert!(a * zero == zero && zero * a == zero);
}
#[kani::proof]
fn k_complex_add_comm_all_finite() {
    use rsdd::util::semirings::Complex;
    let (a, b) = (Complex { re: finite(), im: finite() }, Complex { re: finite(), im: finite() });
    let (s, t) = (a + b, b + a);
    assert!((s.re == t.re || (s.re.is_nan() && t.re.is_nan())) && (s.im == t.im || (s.im.is_nan() && t.im.is_nan())));
}
/// the same for the real and the expected-utility types
#[kani::proof]
fn k_real_identities_all_finite() {
    use rsdd::util::semirings::Semiring;
    let a = RealSemiring(finite());
    let (one, zero) = (RealSemiring::one(), RealSemiring::zero());
    assert!(a + zero == a && zero + a == a);
    assert!(a * one == a && one * a == a);
    assert!(a * zero == zero && zero * a == zero);
    let b = RealSemiring(finite());
    let (s, t) = (a + b, b + a);
    assert!(s == t || (s.0.is_nan() && t.0.is_nan()));
}
#[kani::proof]
fn k_eu_identities_all_finite() {
    use rsdd::util::semirings::Semiring;
    let a = ExpectedUtility(finite(), finite());
    let (one, zero) = (ExpectedUtility::one(), ExpectedUtility::zero());
    assert!(a + zero == a && zero + a == a);
    assert!(a * one == a && one * a == a);
    assert!(a * zero == zero && zero * a == zero);
}

fn big_int() -> f64 {
    // every integer of magnitude <= 2^52 (exactly representable; sums of two of them are exact as well)
    let x: i64 = kani::any();
    kani::assume(x >= -4503599627370496 && x <= 4503599627370496);
    x as f64
}
/// ring subtraction inverts addition on ALL integers up to 2^52 (every value involved is exactly representable): one harness per
/// type, thorough tier only (minutes of CBMC time each)
#[kani::proof]
fn k_real_sub_inverts_add_exact_ints() {
    let (a, b) = (RealSemiring(big_int()), RealSemiring(big_int()));
    assert!((a + b) - b == a && (a - b) + b == a);
}
#[kani::proof]
fn k_eu_sub_inverts_add_exact_ints() {
    let (c, d) = (ExpectedUtility(big_int(), big_int()), ExpectedUtility(big_int(), big_int()));
    assert!((c + d) - d == c && (c - d) + d == c);
}
#[kani::proof]
fn k_complex_sub_inverts_add_exact_ints() {
    use rsdd::util::semirings::Complex;
    let (e, g) = (Complex { re: big_int(), im: big_int() }, Complex { re: big_int(), im: big_int() });
    let (r, s) = ((e + g) - g, (e - g) + g);
    assert!(r.re == e.re && r.im == e.im && s.re == e.re && s.im == e.im);
}
