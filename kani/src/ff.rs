// FiniteField: the Kani route was measured and is NOT used.  `x % P` on 128-bit operands makes every
// harness over FiniteField time out in CBMC (none of 9 harnesses finished in 15 minutes, measured);
// the finite-field obligations are discharged by the Verus unit `ff` instead (unbounded, generic in P).
