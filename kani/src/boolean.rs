use rsdd::util::semirings::{BooleanSemiring, Semiring};

/// all semiring laws of the Boolean semiring, over all 8 triples
#[kani::proof]
fn k_bool_laws() {
    let (a, b, c) = (BooleanSemiring(kani::any()), BooleanSemiring(kani::any()), BooleanSemiring(kani::any()));
    let (one, zero) = (BooleanSemiring::one(), BooleanSemiring::zero());
    assert!(one.0 && !zero.0);
    assert!((a + b) + c == a + (b + c));
    assert!(a + b == b + a);
    assert!((a * b) * c == a * (b * c));
    assert!(a * b == b * a);
    assert!(a + zero == a && zero + a == a);
    assert!(a * one == a && one * a == a);
    assert!(a * zero == zero && zero * a == zero);
    assert!(a * (b + c) == (a * b) + (a * c));
    assert!((b + c) * a == (b * a) + (c * a));
    assert!((a + b).0 == (a.0 || b.0));
    assert!((a * b).0 == (a.0 && b.0));
}
