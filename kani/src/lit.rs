use rsdd::repr::{Literal, VarLabel};

/// literal bit packing: label (63 bits) and polarity round-trip, negation flips only the polarity
#[kani::proof]
fn k_lit_roundtrip() {
    let l: u64 = kani::any();
    let p: bool = kani::any();
    kani::assume(l < (1u64 << 63));
    kani::cover!(l == (1u64 << 63) - 1 && p);
    let lit = Literal::new(VarLabel::new(l), p);
    assert!(lit.label().value() == l);
    assert!(lit.polarity() == p);
    let n = lit.negated();
    assert!(n.label().value() == l);
    assert!(n.polarity() == !p);
    assert!(n.negated() == lit);
}

/// implies_true / implies_false are exactly label equality with equal / opposite polarity
#[kani::proof]
fn k_lit_implies() {
    let (l1, l2): (u64, u64) = (kani::any(), kani::any());
    let (p1, p2): (bool, bool) = (kani::any(), kani::any());
    kani::assume(l1 < (1u64 << 63) && l2 < (1u64 << 63));
    kani::cover!(l1 == l2 && p1 != p2);
    let a = Literal::new(VarLabel::new(l1), p1);
    let b = Literal::new(VarLabel::new(l2), p2);
    assert!(a.implies_true(&b) == (l1 == l2 && p1 == p2));
    assert!(a.implies_false(&b) == (l1 == l2 && p1 != p2));
    assert!((a == b) == (l1 == l2 && p1 == p2));
}
