//! Kani harnesses.  Every harness is loop-free and quantifies over the whole bit domain of its inputs
//! (restricted only by the `kani::assume`s written in it, each backed by a `kani::cover!`), so a
//! SUCCESSFUL verdict is a complete proof for that domain, not a bounded check.
#![allow(clippy::all)]

#[cfg(kani)]
mod lit;
#[cfg(kani)]
mod boolean;
#[cfg(kani)]
mod ff;
#[cfg(kani)]
mod float;
#[cfg(kani)]
mod assume;
