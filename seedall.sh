#!/bin/sh
# regression over the seeded corpus: every seed must raise VIOLATION for its property, no benign patch may
cd "$(dirname "$0")"
fail=0
for d in seeded/*/; do
  id=$(basename $d)
  [ "$id" = "benign" ] && continue
  prop=$(python3 -c "import json; print(json.load(open('$d/meta.json'))['breaks_property'])")
  out=$(./seedrun.sh $d/patch.diff $prop 2>&1)
  if echo "$out" | grep -q "^VIOLATION property=$prop"; then
    how=$(echo "$out" | grep "^failed obligation" | head -1 | cut -c1-90)
    echo "seed $id [$prop]: detected  ($how)"
  else
    echo "seed $id [$prop]: MISSED"; fail=1
  fi
done
i=1
for prop in C01 C16 C16 C01 C01 C08 C02 C02 C13 C14 C15 C05; do
  out=$(./seedrun.sh seeded/benign/benign_$i.diff $prop 2>&1)
  if echo "$out" | grep -q "^VIOLATION"; then echo "benign_$i [$prop]: FALSE ALARM"; fail=1
  elif echo "$out" | grep -q "^OK"; then echo "benign_$i [$prop]: quiet"
  else echo "benign_$i [$prop]: inconclusive"; fi
  i=$((i+1))
done
git checkout -q -- evidence 2>/dev/null
exit $fail
