#!/bin/sh
# regression over the seeded corpus: every seed must raise VIOLATION for its property, no benign patch may
cd "$(dirname "$0")"
fail=0
for d in seeded/*/; do
  id=$(basename $d)
  [ "$id" = "benign" ] && continue; [ "$id" = "benign2" ] && continue; [ "$id" = "benign3" ] && continue
  prop=$(python3 -c "import json; print(json.load(open('$d/meta.json'))['breaks_property'])")
  out=$(./seedrun.sh $d/patch.diff $prop 2>&1)
  if echo "$out" | grep -q "^VIOLATION property=$prop"; then
    how=$(echo "$out" | grep "^failed obligation" | head -1 | cut -c1-90)
    echo "seed $id [$prop]: detected  ($how)"
  else
    echo "seed $id [$prop]: MISSED"; fail=1
  fi
done
i=1
for prop in C01 C16 C16 C01 C01 C08 C02 C02 C13 C14 C15 C05; do
  out=$(./seedrun.sh seeded/benign/benign_$i.diff $prop 2>&1)
  if echo "$out" | grep -q "^VIOLATION"; then echo "benign_$i [$prop]: FALSE ALARM"; fail=1
  elif echo "$out" | grep -q "^OK"; then echo "benign_$i [$prop]: quiet"
  else echo "benign_$i [$prop]: inconclusive"; fi
  i=$((i+1))
done
for spec in "b1_1:C01 C02 C08" "b1_2:C01 C02 C08" "b1_3:C16 C01" "b1_4:C01 C05" "b1_5:C01 C05 C02" "b2_1:C02" "b2_2:C16" "b2_3:C14 C01" "b2_4:C01 C02" "b2_5:C02" "b3_1:C13" "b3_2:C13" "b3_3:C15" "b3_4:C15" "b3_5:C14" "b3_6:C06"; do
  f=${spec%%:*}; props=${spec#*:}
  out=$(./seedrun.sh seeded/benign2/$f.diff $props 2>&1)
  if echo "$out" | grep -q "^VIOLATION"; then echo "benign2/$f [$props]: FALSE ALARM"; fail=1
  elif echo "$out" | grep -q "^INCONCLUSIVE"; then echo "benign2/$f [$props]: inconclusive"
  else echo "benign2/$f [$props]: quiet"; fi
done
for spec in "b3a_1:C01 C02" "b3a_2:C05" "b3a_3:C05" "b3a_4:C01 C02" "b3a_5:C01 C02" "b3a_6:C08" "b3b_1:C15" "b3b_2:C15" "b3b_3:C09" "b3b_4:C09" "b3b_5:C14" "b3b_6:C06"; do
  f=${spec%%:*}; props=${spec#*:}
  out=$(./seedrun.sh seeded/benign3/$f.diff $props 2>&1)
  if echo "$out" | grep -q "^VIOLATION"; then echo "benign3/$f [$props]: FALSE ALARM"; fail=1
  elif echo "$out" | grep -q "^INCONCLUSIVE"; then echo "benign3/$f [$props]: inconclusive"
  else echo "benign3/$f [$props]: quiet"; fi
done
git checkout -q -- evidence 2>/dev/null
exit $fail
